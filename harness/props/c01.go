package props

import (
	"math"

	structform "github.com/elastic/go-structform"
	"github.com/elastic/go-structform/json"

	"verif/harness/ev"
	"verif/harness/gen"
	"verif/harness/ref"
	"verif/harness/rt"
)

// emit drives a visitor with the basic events describing n. known: containers
// announce their length (else -1).
func emit(n *gen.Node, v structform.Visitor, known bool) error {
	switch n.K {
	case gen.KNil:
		return v.OnNil()
	case gen.KBool:
		return v.OnBool(n.Bits == 1)
	case gen.KInt:
		return v.OnInt64(int64(n.Bits))
	case gen.KUint:
		return v.OnUint64(n.Bits)
	case gen.KF32:
		return v.OnFloat32(math.Float32frombits(uint32(n.Bits)))
	case gen.KF64:
		return v.OnFloat64(math.Float64frombits(n.Bits))
	case gen.KStr:
		return v.OnString(string(n.Str))
	case gen.KBytes:
		if err := v.OnArrayStart(len(n.Str), structform.ByteType); err != nil {
			return err
		}
		for _, b := range n.Str {
			if err := v.OnByte(b); err != nil {
				return err
			}
		}
		return v.OnArrayFinished()
	case gen.KArr:
		l := -1
		if known {
			l = len(n.Kids)
		}
		if err := v.OnArrayStart(l, structform.AnyType); err != nil {
			return err
		}
		for _, k := range n.Kids {
			if err := emit(k, v, known); err != nil {
				return err
			}
		}
		return v.OnArrayFinished()
	case gen.KObj:
		l := -1
		if known {
			l = len(n.Kids)
		}
		if err := v.OnObjectStart(l, structform.AnyType); err != nil {
			return err
		}
		for i, k := range n.Kids {
			if err := v.OnKey(string(n.Keys[i])); err != nil {
				return err
			}
			if err := emit(k, v, known); err != nil {
				return err
			}
		}
		return v.OnObjectFinished()
	}
	return nil
}

func hasEmptyKey(n *gen.Node) bool {
	for i, k := range n.Kids {
		if n.K == gen.KObj && len(n.Keys[i]) == 0 {
			return true
		}
		if hasEmptyKey(k) {
			return true
		}
	}
	return false
}

func genCfg(h *rt.H) *gen.Cfg {
	return &gen.Cfg{Depth: h.Param("D", 2), Width: h.Param("W", 2), MaxNode: h.Param("K", 4), StrLen: h.Param("S", 1), Leaves: h.Param("L", 4), ASCII: h.Param("ASCII", 0) == 1, Small: h.Param("SMALL", 0) == 1, Bytes: h.Param("BYTES", 0) == 1, Chain: h.Param("CHAIN", 0), Long: h.Param("LONG", 0), Special: h.Param("SPECIAL", 0) == 1}
}

// newEncoder creates the codec's encoder; for JSON the three options are chosen symbolically.
func newEncoder(h *rt.H, c *codec, out *sink) structform.Visitor {
	if c == jsonCodec {
		v := json.NewVisitor(out)
		v.SetEscapeHTML(h.Choose("escapeHTML", 0, 1) == 1)
		v.SetIgnoreInvalidFloat(h.Choose("ignoreInvalidFloat", 0, 1) == 1)
		v.SetExplicitRadixPoint(h.Choose("explicitRadixPoint", 0, 1) == 1)
		return v
	}
	return c.newVisitor(out)
}

func newExtEncoder(c *codec, out *sink) structform.ExtVisitor {
	return structform.EnsureExtVisitor(c.newVisitor(out))
}

// roundTrip: encode a generated value, decode the bytes (library parser for C01,
// reference decoder for C07), compare with the value.
func roundTrip(h *rt.H, c *codec, independent bool) {
	cfg := genCfg(h)
	if c == jsonCodec {
		cfg.ASCII = true // arbitrary bytes in strings: RT_String harnesses
	}
	v := gen.Value(h, cfg)
	if hasEmptyKey(v) {
		h.Tag("key.empty")
	}
	known := h.Choose("known", 0, 1) == 1
	out := &sink{}
	enc := newEncoder(h, c, out)
	err := emit(v, enc, known)
	h.Assert("encoded", err == nil)
	want := v.Events(nil)
	var got []ev.Event
	if independent {
		evs, class, items := c.refDecode(h, out.B)
		h.Assert("valid-document", class == ref.OK && items == 1)
		got = evs
	} else {
		var rec ev.Recorder
		perr := c.parse(cloneBytes(out.B), &rec)
		h.Assert("accepted", perr == nil)
		got = ev.Normalise(rec.Events)
	}
	h.Assert("value", ev.Equal(got, want))
	h.ObserveBytes("bytes", out.B)
}

// RT_Struct_<codec> (C01): encoder -> same format's parser.
func RT_Struct_cborl(h *rt.H)  { roundTrip(h, cborCodec, false) }
func RT_Struct_ubjson(h *rt.H) { roundTrip(h, ubjsonCodec, false) }
func RT_Struct_json(h *rt.H)   { roundTrip(h, jsonCodec, false) }

// ENC_Struct_<codec> (C07): encoder -> independent reference decoder.
func ENC_Struct_cborl(h *rt.H)  { roundTrip(h, cborCodec, true) }
func ENC_Struct_ubjson(h *rt.H) { roundTrip(h, ubjsonCodec, true) }
func ENC_Struct_json(h *rt.H)   { roundTrip(h, jsonCodec, true) }

// scalarEvent calls the visitor method of scalar kind k with a fully symbolic
// payload and returns the expected normalised event.
func scalarEvent(h *rt.H, k int, v structform.Visitor, maxUint uint64) (ev.Event, error) {
	switch k {
	case 0:
		return ev.Event{K: ev.Nil}, v.OnNil()
	case 1:
		b := h.Bool("b")
		return ev.Event{K: ev.Bool, Bits: rt.IteU64(b, 1, 0)}, v.OnBool(b)
	case 2:
		x := int8(h.U8("v"))
		return ev.Normalise([]ev.Event{{K: ev.Int8, Bits: uint64(int64(x))}})[0], v.OnInt8(x)
	case 3:
		x := int16(h.U16("v"))
		return ev.Normalise([]ev.Event{{K: ev.Int16, Bits: uint64(int64(x))}})[0], v.OnInt16(x)
	case 4:
		x := int32(h.U32("v"))
		return ev.Normalise([]ev.Event{{K: ev.Int32, Bits: uint64(int64(x))}})[0], v.OnInt32(x)
	case 5:
		x := int64(h.U64("v"))
		return ev.Normalise([]ev.Event{{K: ev.Int64, Bits: uint64(x)}})[0], v.OnInt64(x)
	case 6:
		x := int(h.U64("v"))
		return ev.Normalise([]ev.Event{{K: ev.Int, Bits: uint64(x)}})[0], v.OnInt(x)
	case 7:
		x := h.U8("v")
		return ev.NumEvent(false, uint64(x)), v.OnByte(x)
	case 8:
		x := h.U8("v")
		return ev.NumEvent(false, uint64(x)), v.OnUint8(x)
	case 9:
		x := h.U16("v")
		return ev.NumEvent(false, uint64(x)), v.OnUint16(x)
	case 10:
		x := h.U32("v")
		return ev.NumEvent(false, uint64(x)), v.OnUint32(x)
	case 11:
		x := h.U64("v")
		h.Assume(x <= maxUint)
		return ev.NumEvent(false, x), v.OnUint64(x)
	case 12:
		x := uint(h.U64("v"))
		h.Assume(uint64(x) <= maxUint)
		return ev.NumEvent(false, uint64(x)), v.OnUint(x)
	case 13:
		x := h.U32("v")
		return ev.Event{K: ev.Float32, Bits: uint64(x)}, v.OnFloat32(math.Float32frombits(x))
	case 14:
		x := h.U64("v")
		return ev.Event{K: ev.Float64, Bits: x}, v.OnFloat64(math.Float64frombits(x))
	}
	s := h.Bytes("s", h.Choose("slen", 0, h.Param("S", 2)))
	return ev.Event{K: ev.String, Str: s}, v.OnString(string(s))
}

// scalarRT: one scalar event of every kind in three positions (top level, only
// element of an array, only member of an object), binary codecs. UBJSON carries
// unsigned values above MaxInt64 as high-precision decimal strings (documented).
func scalarRT(h *rt.H, c *codec, independent bool) {
	k := h.Choose("kind", 0, 15)
	pos := h.Choose("pos", 0, 2)
	out := &sink{}
	enc := c.newVisitor(out)
	var want []ev.Event
	var err error
	switch pos {
	case 1:
		err = enc.OnArrayStart(1, structform.AnyType)
		want = append(want, ev.Event{K: ev.ArrStart})
	case 2:
		err = enc.OnObjectStart(1, structform.AnyType)
		if err == nil {
			err = enc.OnKey("k")
		}
		want = append(want, ev.Event{K: ev.ObjStart}, ev.Event{K: ev.Key, Str: []byte("k")})
	}
	h.Assert("encoded-prefix", err == nil)
	maxUint := uint64(math.MaxUint64)
	if c == ubjsonCodec {
		maxUint = math.MaxInt64 // above: decimal string via 'H', see RT_UBJSON_HighPrec
	}
	e, err := scalarEvent(h, k, enc, maxUint)
	want = append(want, e)
	h.Assert("encoded", err == nil)
	switch pos {
	case 1:
		err = enc.OnArrayFinished()
		want = append(want, ev.Event{K: ev.ArrEnd})
	case 2:
		err = enc.OnObjectFinished()
		want = append(want, ev.Event{K: ev.ObjEnd})
	}
	h.Assert("encoded-suffix", err == nil)
	var got []ev.Event
	if independent {
		evs, class, items := c.refDecode(h, out.B)
		h.Assert("valid-document", class == ref.OK && items == 1)
		got = evs
	} else {
		var rec ev.Recorder
		perr := c.parse(cloneBytes(out.B), &rec)
		h.Assert("accepted", perr == nil)
		got = ev.Normalise(rec.Events)
	}
	h.Assert("value", ev.Equal(got, want))
	h.ObserveBytes("bytes", out.B)
}

func RT_Scalar_cborl(h *rt.H)   { scalarRT(h, cborCodec, false) }
func RT_Scalar_ubjson(h *rt.H)  { scalarRT(h, ubjsonCodec, false) }
func ENC_Scalar_cborl(h *rt.H)  { scalarRT(h, cborCodec, true) }
func ENC_Scalar_ubjson(h *rt.H) { scalarRT(h, ubjsonCodec, true) }

// jsonIntRT: OnInt64 / OnUint64 with a fully symbolic 64-bit value through the JSON
// encoder (the /10 kernel) and back through the parser (the *10 kernel). The engine
// forks on the number of digits; every digit class is one query for the integer
// back end (cvc5 --solve-bv-as-int).
func jsonIntRT(h *rt.H, unsigned bool, independent bool) {
	x := h.U64("v")
	// digit class: the magnitude has exactly d decimal digits (all 20 classes are
	// explored; stated first so that the encoder's and the parser's loop conditions
	// are decided from the value range without a solver)
	pow10 := []uint64{0, 10, 100, 1000, 10000, 100000, 1e6, 1e7, 1e8, 1e9, 1e10, 1e11, 1e12, 1e13, 1e14, 1e15, 1e16, 1e17, 1e18, 1e19}
	d := h.Choose("digits", 1, h.Param("MAXDIGITS", 20))
	mag := x
	if !unsigned {
		if h.Choose("neg", 0, 1) == 1 {
			h.Assume(int64(x) < 0)
			mag = -x
		} else {
			h.Assume(int64(x) >= 0)
		}
	}
	h.Assume(mag >= pow10[d-1])
	if d < 20 {
		h.Assume(mag < pow10[d])
	}
	out := &sink{}
	enc := json.NewVisitor(out)
	var err error
	var want ev.Event
	if unsigned {
		err = enc.OnUint64(x)
		want = ev.NumEvent(false, x)
	} else {
		err = enc.OnInt64(int64(x))
		neg := int64(x) < 0
		want = ev.NumEvent(neg, rt.IteU64(neg, -x, x))
	}
	h.Assert("encoded", err == nil)
	var got []ev.Event
	if independent {
		evs, class, items := ref.DecodeJSON(h, out.B)
		h.Assert("valid-document", class == ref.OK && items == 1)
		got = evs
	} else {
		var rec ev.Recorder
		perr := json.Parse(cloneBytes(out.B), &rec)
		h.Assert("accepted", perr == nil)
		got = ev.Normalise(rec.Events)
	}
	h.Assert("one-event", len(got) == 1)
	if len(got) == 1 {
		h.Assert("value", ev.Equal(got, []ev.Event{want}))
	}
	h.ObserveBytes("bytes", out.B)
}

func RT_JSONInt(h *rt.H)   { jsonIntRT(h, false, false) }
func RT_JSONUint(h *rt.H)  { jsonIntRT(h, true, false) }
func ENC_JSONInt(h *rt.H)  { jsonIntRT(h, false, true) }
func ENC_JSONUint(h *rt.H) { jsonIntRT(h, true, true) }

// jsonFloatEnc (C01, C07): floats through the JSON encoder under every option
// combination. strconv is not encoded, so the floats are concrete representative
// values (stated in the evidence as enumeration, not as an all-values claim); what
// is decided is the encoder's own text handling around strconv's output: the
// separator logic, the non-finite guard, the radix point insertion.
var jsonFloatSet = []float64{0, 1, -1, 0.5, 100000000, 1e21, 1e-7, 123456789.125, -2.5e-300, 1.7976931348623157e308, 5e-324}

func jsonFloatEnc(h *rt.H) {
	out := &sink{}
	v := json.NewVisitor(out)
	ignore := h.Choose("ignoreInvalidFloat", 0, 1) == 1
	radix := h.Choose("explicitRadixPoint", 0, 1) == 1
	v.SetIgnoreInvalidFloat(ignore)
	v.SetExplicitRadixPoint(radix)
	ctx := h.Choose("ctx", 0, 2) // 0 top level, 1 array of two, 2 object member followed by another
	pick := func(name string) (float64, bool) {
		k := h.Choose(name, 0, len(jsonFloatSet)+2)
		switch k - len(jsonFloatSet) {
		case 0:
			return math.NaN(), false
		case 1:
			return math.Inf(1), false
		case 2:
			return math.Inf(-1), false
		}
		return jsonFloatSet[k], true
	}
	f32 := h.Choose("f32", 0, 1) == 1
	on := func(f float64) error {
		if f32 {
			return v.OnFloat32(float32(f))
		}
		return v.OnFloat64(f)
	}
	a, finA := pick("a")
	if f32 && finA && float64(float32(a)) != a {
		a = float64(float32(a))
		finA = !math.IsInf(a, 0)
	}
	var err error
	nFloats := 1
	switch ctx {
	case 0:
		err = on(a)
	case 1:
		b, _ := pick("b")
		nFloats = 2
		err = v.OnArrayStart(-1, structform.AnyType)
		if err == nil {
			err = v.OnInt8(7)
		}
		if err == nil {
			err = on(a)
		}
		if err == nil {
			err = on(b)
			if math.IsNaN(b) || math.IsInf(b, 0) || (f32 && math.IsInf(float64(float32(b)), 0)) {
				finA = false // some non-finite value in the sequence
			}
		}
		if err == nil {
			err = v.OnArrayFinished()
		}
	case 2:
		err = v.OnObjectStart(-1, structform.AnyType)
		if err == nil {
			err = v.OnKey("x")
		}
		if err == nil {
			err = on(a)
		}
		if err == nil {
			err = v.OnKey("y")
		}
		if err == nil {
			err = v.OnInt8(7)
		}
		if err == nil {
			err = v.OnObjectFinished()
		}
	}
	_ = nFloats
	if !finA && !ignore {
		h.Assert("nonfinite-refused", err != nil)
		return
	}
	h.Assert("encoded", err == nil)
	// the document must be valid JSON (independent decoder); non-finite values are null
	evs, class, items := ref.DecodeJSON(h, out.B)
	h.Assert("valid-document", class == ref.OK && items == 1)
	if finA {
		// the first float reads back numerically equal (integral floats may come back as integers)
		var got ev.Event
		for _, e := range evs {
			if e.K == ev.Float64 || (e.K == ev.Num && !(ctx != 0 && e.Bits == 7 && !e.Neg)) {
				got = e
				break
			}
		}
		ok := false
		switch got.K {
		case ev.Float64:
			ok = math.Float64frombits(got.Bits) == a
			if f32 {
				// shortest decimal that identifies the float32
				ok = float32(math.Float64frombits(got.Bits)) == float32(a)
			}
		case ev.Num:
			m := float64(got.Bits)
			if got.Neg {
				m = -m
			}
			ok = m == a
		}
		if a != 7 {
			h.Assert("float-value", ok)
		}
		if radix {
			// with an explicit radix point the float never reads back as an integer
			h.Assert("radix-point", got.K == ev.Float64)
		}
	}
	h.ObserveBytes("bytes", out.B)
}

func ENC_JSONFloat(h *rt.H) { jsonFloatEnc(h) }

// ubjsonHighPrec (C01, C07, C10): unsigned values above MaxInt64 travel as
// high-precision decimal strings. Concrete representative values (strconv.AppendUint
// and its digit tables are executed from their SSA); scalar, typed array, typed map.
var highPrecSet = []uint64{1 << 63, 1<<63 + 1, 10000000000000000000, 12345678901234567890, math.MaxUint64 - 1, math.MaxUint64}
var smallSet = []uint64{0, 1, 9, 10, 255, 65536, 1 << 40, 9999999999999999, 10000000000000000, math.MaxInt64}

func decimal(u uint64) []byte {
	if u == 0 {
		return []byte{'0'}
	}
	var b []byte
	for u > 0 {
		b = append([]byte{byte('0' + u%10)}, b...)
		u /= 10
	}
	return b
}

func ubjsonHighPrec(h *rt.H) {
	out := &sink{}
	enc := structform.EnsureExtVisitor(ubjsonCodec.newVisitor(out))
	big := highPrecSet[h.Choose("big", 0, len(highPrecSet)-1)]
	small := smallSet[h.Choose("small", 0, len(smallSet)-1)]
	shape := h.Choose("shape", 0, 7)
	var err error
	var want []ev.Event
	str := func(u uint64) ev.Event { return ev.Event{K: ev.String, Str: decimal(u)} }
	// elements of every width class before and after the one above MaxInt64
	mid := []uint64{200, 40000, 1 << 20, 1 << 40, 1<<63 - 1}[h.Choose("mid", 0, 4)]
	switch shape {
	case 5:
		err = enc.OnUint64Array([]uint64{mid, big, small})
		want = []ev.Event{{K: ev.ArrStart}, str(mid), str(big), str(small), {K: ev.ArrEnd}}
	case 6:
		err = enc.OnUint64Array([]uint64{small, mid, big})
		want = []ev.Event{{K: ev.ArrStart}, str(small), str(mid), str(big), {K: ev.ArrEnd}}
	case 7:
		err = enc.OnUintArray([]uint{uint(mid), uint(big)})
		want = []ev.Event{{K: ev.ArrStart}, str(mid), str(big), {K: ev.ArrEnd}}
	case 0:
		err = enc.OnUint64(big)
		want = []ev.Event{str(big)}
	case 1: // array: one element above MaxInt64 forces the high-precision form for all
		err = enc.OnUint64Array([]uint64{small, big})
		want = []ev.Event{{K: ev.ArrStart}, str(small), str(big), {K: ev.ArrEnd}}
	case 2:
		err = enc.OnUint64Array([]uint64{big, small})
		want = []ev.Event{{K: ev.ArrStart}, str(big), str(small), {K: ev.ArrEnd}}
	case 3:
		err = enc.OnUintArray([]uint{uint(big), uint(small)})
		want = []ev.Event{{K: ev.ArrStart}, str(big), str(small), {K: ev.ArrEnd}}
	case 4:
		err = enc.OnUint64Object(map[string]uint64{"a": big})
		want = []ev.Event{{K: ev.ObjStart}, {K: ev.Key, Str: []byte("a")}, str(big), {K: ev.ObjEnd}}
	}
	h.Assert("encoded", err == nil)
	got, class, items := ref.DecodeUBJSON(h, out.B)
	h.Assert("valid-document", class == ref.OK && items == 1)
	h.Assert("value", ev.Equal(got, want))
	var rec ev.Recorder
	h.Assert("accepted", ubjsonCodec.parse(cloneBytes(out.B), &rec) == nil)
	h.Assert("roundtrip", ev.Equal(ev.Normalise(rec.Events), want))
	h.ObserveBytes("bytes", out.B)
}

func ENC_UBJSON_HighPrec(h *rt.H) { ubjsonHighPrec(h) }

// jsonStringEnc (C01, C07): strings and keys of N fully symbolic bytes (every byte
// value, invalid UTF-8 included) through the JSON encoder with HTML escaping on or
// off, as a string value (OnString / OnStringRef) and as an object key (OnKey /
// OnKeyRef): the output is valid UTF-8 without raw control characters (and without
// raw < > & when HTML escaping is on), it is a valid document for the reference
// decoder, and reads back as the input with invalid UTF-8 replaced by U+FFFD; the
// library's own parser reads the same.
func jsonStringEnc(h *rt.H) {
	n := h.Choose("len", 0, h.Param("N", 2))
	s := h.Bytes("s", n)
	html := h.Choose("escapeHTML", 0, 1) == 1
	how := h.Choose("how", 0, 3) // 0 OnString, 1 OnStringRef, 2 OnKey, 3 OnKeyRef
	out := &sink{}
	v := json.NewVisitor(out)
	v.SetEscapeHTML(html)
	var err error
	switch how {
	case 0:
		err = v.OnString(string(s))
	case 1:
		err = v.OnStringRef(cloneBytes(s))
	case 2, 3:
		err = v.OnObjectStart(-1, structform.AnyType)
		if err == nil {
			if how == 2 {
				err = v.OnKey(string(s))
			} else {
				err = v.OnKeyRef(cloneBytes(s))
			}
		}
		if err == nil {
			err = v.OnNil()
		}
		if err == nil {
			err = v.OnObjectFinished()
		}
	}
	h.Assert("encoded", err == nil)
	h.Assert("output-valid-utf8", ref.ValidUTF8(out.B))
	clean := true
	for _, c := range out.B {
		clean = rt.And(clean, c >= 0x20)
		if html {
			clean = rt.And(clean, c != '<' && c != '>' && c != '&')
		}
	}
	h.Assert("no-raw-control-or-html", clean)
	evs, class, items := ref.DecodeJSON(h, out.B)
	h.Assert("valid-document", class == ref.OK && items == 1)
	want := ref.Sanitise(s)
	var got []byte
	found := false
	for _, e := range evs {
		if (how < 2 && e.K == ev.String) || (how >= 2 && e.K == ev.Key) {
			got, found = e.Str, true
		}
	}
	h.Assert("reads-back", found && rt.BytesEq(got, want))
	var rec ev.Recorder
	h.Assert("accepted", json.Parse(cloneBytes(out.B), &rec) == nil)
	found = false
	for _, e := range rec.Events {
		if (how < 2 && e.K == ev.String) || (how >= 2 && e.K == ev.Key) {
			got, found = e.Str, true
		}
	}
	h.Assert("roundtrip", found && rt.BytesEq(got, want))
	h.ObserveBytes("bytes", out.B)
}

func ENC_JSONString(h *rt.H) { jsonStringEnc(h) }

// RT_JSONFloatThenInt (C01, C04): [<float>, <integer>] through the JSON encoder and
// parser: the integer after a float keeps its exact value and comes back as an
// integer (per-number parser state must not leak into the next number). Integer
// fully symbolic per digit class as in RT_JSONInt.
func RT_JSONFloatThenInt(h *rt.H) {
	x := h.U64("v")
	pow10 := []uint64{0, 10, 100, 1000, 10000, 100000, 1e6, 1e7, 1e8, 1e9, 1e10, 1e11, 1e12, 1e13, 1e14, 1e15, 1e16, 1e17, 1e18, 1e19}
	d := h.Choose("digits", 1, h.Param("MAXDIGITS", 20))
	h.Assume(x >= pow10[d-1])
	if d < 20 {
		h.Assume(x < pow10[d])
	}
	out := &sink{}
	enc := json.NewVisitor(out)
	err := enc.OnArrayStart(-1, structform.AnyType)
	if err == nil {
		err = enc.OnFloat64(0.5)
	}
	if err == nil {
		err = enc.OnUint64(x)
	}
	if err == nil {
		err = enc.OnArrayFinished()
	}
	h.Assert("encoded", err == nil)
	var rec ev.Recorder
	h.Assert("accepted", json.Parse(cloneBytes(out.B), &rec) == nil)
	got := ev.Normalise(rec.Events)
	h.Assert("shape", len(got) == 4 && got[1].K == ev.Float64)
	if len(got) == 4 {
		h.Assert("integer-exact", ev.Equal(got[2:3], []ev.Event{ev.NumEvent(false, x)}))
	}
}
