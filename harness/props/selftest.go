package props

import (
	structform "github.com/elastic/go-structform"
	"github.com/elastic/go-structform/gotype"
	"github.com/elastic/go-structform/sftest"

	"verif/harness/ev"
	"verif/harness/rt"
)

// SELFTEST_Samples (translator validation, DESIGN 2.5): the repository's own
// sftest.Samples recordings are pushed through each encoder, the bytes through the
// same format's parser, and through Fold/Unfold, inside the engine in all-concrete
// mode. Bytes and events are observed; the check replays every path natively and
// compares the observations with the real execution (a mismatch is an engine defect).
func SELFTEST_Samples(h *rt.H) {
	i := h.Choose("sample", 0, len(sftest.Samples)-1)
	c := []*codec{jsonCodec, ubjsonCodec, cborCodec}[h.Choose("codec", 0, 2)]
	rec := sftest.Samples[i]
	out := &sink{}
	err := rec.Replay(structform.EnsureExtVisitor(c.newVisitor(out)))
	h.ObserveBool("encode-error", err != nil)
	h.ObserveBytes("bytes", out.B)
	var got ev.Recorder
	perr := c.parse(cloneBytes(out.B), &got)
	h.ObserveBool("parse-error", perr != nil)
	h.ObserveBytes("events", ev.Serialize(got.Events))
	h.Assert("encoded", err == nil)
	h.Assert("parsed", perr == nil)
	// fold/unfold: the recording into an empty interface and folded back
	var to interface{}
	u, uerr := gotype.NewUnfolder(&to)
	if uerr == nil {
		uerr = rec.Replay(structform.EnsureExtVisitor(u))
	}
	h.ObserveBool("unfold-error", uerr != nil)
	if uerr == nil {
		var back ev.Recorder
		ferr := gotype.Fold(to, &back)
		h.ObserveBool("fold-error", ferr != nil)
		if m, isMap := to.(map[string]interface{}); !isMap || len(m) < 2 {
			// (maps with several entries fold in Go's unspecified order: not observed)
			h.ObserveBytes("refolded", ev.Serialize(back.Events))
		}
	}
}
