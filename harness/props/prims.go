package props

import (
	"math"

	structform "github.com/elastic/go-structform"
	"github.com/elastic/go-structform/gotype"

	"verif/harness/ev"
	"verif/harness/rt"
)

// Generic (type-parameterised) harness bodies: one instantiation per primitive type,
// so that the per-type code of the library (typed array/map folders and unfolders,
// the reflection based ones, the inline wrappers - most of it generated from
// templates) is executed for every type and not only for the few the other
// harnesses happen to use.

type primT interface {
	~bool | ~string | ~int | ~int8 | ~int16 | ~int32 | ~int64 | ~uint | ~uint8 | ~uint16 | ~uint32 | ~uint64 | ~float32 | ~float64
}

// foldPos: value v of primitive type T in one of the positions the fold code
// distinguishes; e is the event v stands for.
func foldPos[T primT](h *rt.H, pos int, v, w T, e, f ev.Event) {
	key := func(k string) ev.Event { return ev.Event{K: ev.Key, Str: []byte(k)} }
	obj := func(evs ...ev.Event) []ev.Event {
		return append(append([]ev.Event{{K: ev.ObjStart}}, evs...), ev.Event{K: ev.ObjEnd})
	}
	arr := func(evs ...ev.Event) []ev.Event {
		return append(append([]ev.Event{{K: ev.ArrStart}}, evs...), ev.Event{K: ev.ArrEnd})
	}
	var val interface{}
	var want []ev.Event
	switch pos {
	case 0:
		val, want = v, []ev.Event{e}
	case 1:
		val, want = []T{v, w}, arr(e, f)
	case 2:
		val, want = map[string]T{"k": v}, obj(key("k"), e)
	case 3:
		val, want = struct{ A T }{v}, obj(key("a"), e)
	case 4:
		val, want = struct{ A []T }{[]T{v, w}}, obj(append([]ev.Event{key("a")}, arr(e, f)...)...)
	case 5:
		val, want = struct{ A map[string]T }{map[string]T{"k": v}}, obj(append([]ev.Event{key("a")}, obj(key("k"), e)...)...)
	case 6:
		val = struct {
			B int8
			M map[string]T `struct:",inline"`
		}{1, map[string]T{"k": v}}
		want = obj(key("b"), sNum(1), key("k"), e)
	case 7:
		val, want = struct{ A *T }{&v}, obj(key("a"), e)
	case 8:
		val = struct {
			I interface{} `struct:",inline"`
			Z int8
		}{struct {
			A T
			S []T
		}{v, []T{w}}, 2}
		want = obj(append(append([]ev.Event{key("a"), e, key("s")}, arr(f)...), key("z"), sNum(2))...)
	case 9:
		val, want = []interface{}{v, &w}, arr(e, f)
	case 10:
		val, want = map[string]interface{}{"k": v}, obj(key("k"), e)
	case 11:
		val, want = [2]T{v, w}, arr(e, f)
	case 12:
		val, want = struct{ A **T }{}, obj(key("a"), ev.Event{K: ev.Nil})
	case 13:
		val, want = []*T{&v, nil}, arr(e, ev.Event{K: ev.Nil})
	case 14:
		val, want = map[string][]T{"k": {v}}, obj(append([]ev.Event{key("k")}, arr(e)...)...)
	}
	var rec ev.Recorder
	err := gotype.Fold(val, &rec)
	h.Assert("no-error", err == nil)
	h.Assert("events", ev.Equal(ev.Normalise(rec.Events), want))
	h.Assert("contract", ev.Contract(rec.Events) == "")
	// C16: a visitor failing at any event gets its error back
	if len(rec.Events) > 0 {
		k := h.Choose("failAt", 1, len(rec.Events))
		frec := ev.Recorder{FailAt: k}
		h.Assert("error-returned", gotype.Fold(val, &frec) == ev.ErrInjected)
		h.Assert("no-event-after", frec.After == 0)
	}
}

const numFoldPos = 15

// FOLD_Prims (C12, C09, C16): every primitive type x every position.
func FOLD_Prims(h *rt.H) {
	pos := h.Choose("pos", 0, numFoldPos-1)
	x, y := h.U64("x"), h.U64("y")
	sn := func(v int64) ev.Event { return sNum(v) }
	un := func(v uint64) ev.Event { return ev.NumEvent(false, v) }
	switch h.Choose("type", 0, 13) {
	case 0:
		foldPos(h, pos, x&1 == 1, y&1 == 1, ev.Event{K: ev.Bool, Bits: x & 1}, ev.Event{K: ev.Bool, Bits: y & 1})
	case 1:
		a, b := []byte{byte(x)}, []byte{byte(y)}
		foldPos(h, pos, string(a), string(b), ev.Event{K: ev.String, Str: a}, ev.Event{K: ev.String, Str: b})
	case 2:
		foldPos(h, pos, int(x), int(y), sn(int64(x)), sn(int64(y)))
	case 3:
		foldPos(h, pos, int8(x), int8(y), sn(int64(int8(x))), sn(int64(int8(y))))
	case 4:
		foldPos(h, pos, int16(x), int16(y), sn(int64(int16(x))), sn(int64(int16(y))))
	case 5:
		foldPos(h, pos, int32(x), int32(y), sn(int64(int32(x))), sn(int64(int32(y))))
	case 6:
		foldPos(h, pos, int64(x), int64(y), sn(int64(x)), sn(int64(y)))
	case 7:
		foldPos(h, pos, uint(x), uint(y), un(x), un(y))
	case 8:
		foldPos(h, pos, uint8(x), uint8(y), un(uint64(uint8(x))), un(uint64(uint8(y))))
	case 9:
		foldPos(h, pos, uint16(x), uint16(y), un(uint64(uint16(x))), un(uint64(uint16(y))))
	case 10:
		foldPos(h, pos, uint32(x), uint32(y), un(uint64(uint32(x))), un(uint64(uint32(y))))
	case 11:
		foldPos(h, pos, x, y, un(x), un(y))
	case 12:
		// (NaN payload bits are not part of a value: the reflection based folder goes
		// through float64, which quiets a signalling NaN)
		h.Assume(uint32(x)&0x7f800000 != 0x7f800000 && uint32(y)&0x7f800000 != 0x7f800000)
		// sign, exponent and the top mantissa bits symbolic, the low mantissa bits a
		// fixed pattern (the float32 -> float64 -> float32 identity with 32 free bits
		// times out in the solver now and then; the bit-exact transport of floats is
		// the subject of the scalar harnesses)
		x, y = x&0xfff80000|0x2a5a5, y&0xfff80000|0x15a5a
		a, b := math.Float32frombits(uint32(x)), math.Float32frombits(uint32(y))
		foldPos(h, pos, a, b, ev.Event{K: ev.Float32, Bits: uint64(uint32(x))}, ev.Event{K: ev.Float32, Bits: uint64(uint32(y))})
	case 13:
		a, b := math.Float64frombits(x), math.Float64frombits(y)
		foldPos(h, pos, a, b, ev.Event{K: ev.Float64, Bits: x}, ev.Event{K: ev.Float64, Bits: y})
	}
}

// ---- unfolding: integer event kind x integer target type x position of the target

type intT interface {
	~int | ~int8 | ~int16 | ~int32 | ~int64 | ~uint | ~uint8 | ~uint16 | ~uint32 | ~uint64
}

const numUnfoldPos = 11

// unfoldPos: one integer event of kind k with payload x (value val, which fits T)
// delivered to a target in which a T sits at position pos; the T must hold val.
func unfoldPos[T intT](h *rt.H, pos, k int, x uint64, want T) {
	var (
		p0  []T
		p1  map[string]T
		p2  *T
		p3  struct{ A T }
		p4  []*T
		p5  map[string]*T
		p6  struct{ A *T }
		p7  [][]T
		p8  map[string][]T
		p9  struct{ A []T }
		p10 struct {
			B int8
			A map[string]T
		}
	)
	target := []interface{}{&p0, &p1, &p2, &p3, &p4, &p5, &p6, &p7, &p8, &p9, &p10}[pos]
	u, err := gotype.NewUnfolder(target)
	h.Assert("unfolder-created", err == nil)
	if err != nil {
		return
	}
	v := structform.EnsureExtVisitor(u)
	step := func(e error) {
		if err == nil {
			err = e
		}
	}
	as := func() { step(v.OnArrayStart(-1, structform.AnyType)) }
	ae := func() { step(v.OnArrayFinished()) }
	os := func(k string) {
		step(v.OnObjectStart(-1, structform.AnyType))
		step(v.OnKey(k))
	}
	oe := func() { step(v.OnObjectFinished()) }
	val := func() { step(callScalar(k, x, v)) }
	switch pos {
	case 0, 4:
		as()
		val()
		ae()
	case 1, 5:
		os("k")
		val()
		oe()
	case 2:
		val()
	case 3, 6:
		os("a")
		val()
		oe()
	case 7:
		as()
		as()
		val()
		ae()
		ae()
	case 8:
		os("k")
		as()
		val()
		ae()
		oe()
	case 9:
		os("a")
		as()
		val()
		ae()
		oe()
	case 10:
		os("a")
		os("k")
		val()
		oe()
		oe()
	}
	h.Assert("no-error", err == nil)
	var got T
	ok := false
	switch pos {
	case 0:
		if ok = len(p0) == 1; ok {
			got = p0[0]
		}
	case 1:
		got, ok = p1["k"]
		ok = ok && len(p1) == 1
	case 2:
		if ok = p2 != nil; ok {
			got = *p2
		}
	case 3:
		got, ok = p3.A, true
	case 4:
		if ok = len(p4) == 1 && p4[0] != nil; ok {
			got = *p4[0]
		}
	case 5:
		if ok = len(p5) == 1 && p5["k"] != nil; ok {
			got = *p5["k"]
		}
	case 6:
		if ok = p6.A != nil; ok {
			got = *p6.A
		}
	case 7:
		if ok = len(p7) == 1 && len(p7[0]) == 1; ok {
			got = p7[0][0]
		}
	case 8:
		if ok = len(p8) == 1 && len(p8["k"]) == 1; ok {
			got = p8["k"][0]
		}
	case 9:
		if ok = len(p9.A) == 1; ok {
			got = p9.A[0]
		}
	case 10:
		got, ok = p10.A["k"]
		ok = ok && len(p10.A) == 1 && p10.B == 0
	}
	h.Assert("shape", ok)
	h.Assert("value", got == want)
}

// UNFOLD_ConvPos (C13): the integer conversion matrix of UNFOLD_Conv (11 event
// kinds x 10 target types, payload fully symbolic, assumption "fits") with the target
// type as slice element, map element, behind pointers, as struct field, nested.
func UNFOLD_ConvPos(h *rt.H) {
	k := h.Choose("event", 0, 10)
	t := h.Choose("target", 0, 9)
	pos := h.Choose("pos", 0, numUnfoldPos-1)
	x := h.U64("x")
	val, big := intValueOf(k, x)
	var fits bool
	switch t {
	case 0:
		fits = !big && val >= math.MinInt8 && val <= math.MaxInt8
	case 1:
		fits = !big && val >= math.MinInt16 && val <= math.MaxInt16
	case 2:
		fits = !big && val >= math.MinInt32 && val <= math.MaxInt32
	case 3, 4:
		fits = !big
	case 5:
		fits = !big && val >= 0 && val <= math.MaxUint8
	case 6:
		fits = !big && val >= 0 && val <= math.MaxUint16
	case 7:
		fits = !big && val >= 0 && val <= math.MaxUint32
	case 8, 9:
		fits = big || val >= 0
	}
	h.Assume(fits)
	switch t {
	case 0:
		unfoldPos(h, pos, k, x, int8(val))
	case 1:
		unfoldPos(h, pos, k, x, int16(val))
	case 2:
		unfoldPos(h, pos, k, x, int32(val))
	case 3:
		unfoldPos(h, pos, k, x, val)
	case 4:
		unfoldPos(h, pos, k, x, int(val))
	case 5:
		unfoldPos(h, pos, k, x, uint8(val))
	case 6:
		unfoldPos(h, pos, k, x, uint16(val))
	case 7:
		unfoldPos(h, pos, k, x, uint32(val))
	case 8:
		unfoldPos(h, pos, k, x, uint64(val))
	case 9:
		unfoldPos(h, pos, k, x, uint(val))
	}
}

// ---- unfolding: every event kind x every primitive target type x position

// unfoldKind: one event of kind k (all kinds, also those that do not match T)
// delivered to a target in which a T sits at position pos (positions of unfoldPos).
// Mismatches must be errors, never crashes (monitors); a matching kind must store
// the value: same(got) decides, given the stored T.
func unfoldKind[T primT](h *rt.H, pos int, deliver func(v structform.ExtVisitor) error, matching bool, same func(T) bool) {
	var (
		p0  []T
		p1  map[string]T
		p2  *T
		p3  struct{ A T }
		p4  []*T
		p5  map[string]*T
		p6  struct{ A *T }
		p7  [][]T
		p8  map[string][]T
		p9  struct{ A []T }
		p10 struct {
			B int8
			A map[string]T
		}
	)
	target := []interface{}{&p0, &p1, &p2, &p3, &p4, &p5, &p6, &p7, &p8, &p9, &p10}[pos]
	u, err := gotype.NewUnfolder(target)
	h.Assert("unfolder-created", err == nil)
	if err != nil {
		return
	}
	v := structform.EnsureExtVisitor(u)
	step := func(e error) {
		if err == nil {
			err = e
		}
	}
	as := func() { step(v.OnArrayStart(-1, structform.AnyType)) }
	ae := func() { step(v.OnArrayFinished()) }
	os := func(k string) {
		step(v.OnObjectStart(-1, structform.AnyType))
		step(v.OnKey(k))
	}
	oe := func() { step(v.OnObjectFinished()) }
	val := func() {
		if err == nil {
			err = deliver(v)
		}
	}
	switch pos {
	case 0, 4:
		as()
		val()
		ae()
	case 1, 5:
		os("k")
		val()
		oe()
	case 2:
		val()
	case 3, 6:
		os("a")
		val()
		oe()
	case 7:
		as()
		as()
		val()
		ae()
		ae()
	case 8:
		os("k")
		as()
		val()
		ae()
		oe()
	case 9:
		os("a")
		as()
		val()
		ae()
		oe()
	case 10:
		os("a")
		os("k")
		val()
		oe()
		oe()
	}
	if !matching {
		h.ObserveBool("refused", err != nil)
		return
	}
	h.Assert("no-error", err == nil)
	var got T
	ok := false
	switch pos {
	case 0:
		if ok = len(p0) == 1; ok {
			got = p0[0]
		}
	case 1:
		got, ok = p1["k"]
	case 2:
		if ok = p2 != nil; ok {
			got = *p2
		}
	case 3:
		got, ok = p3.A, true
	case 4:
		if ok = len(p4) == 1 && p4[0] != nil; ok {
			got = *p4[0]
		}
	case 5:
		if ok = len(p5) == 1 && p5["k"] != nil; ok {
			got = *p5["k"]
		}
	case 6:
		if ok = p6.A != nil; ok {
			got = *p6.A
		}
	case 7:
		if ok = len(p7) == 1 && len(p7[0]) == 1; ok {
			got = p7[0][0]
		}
	case 8:
		if ok = len(p8) == 1 && len(p8["k"]) == 1; ok {
			got = p8["k"][0]
		}
	case 9:
		if ok = len(p9.A) == 1; ok {
			got = p9.A[0]
		}
	case 10:
		got, ok = p10.A["k"]
	}
	h.Assert("shape", ok)
	h.Assert("value", same(got))
}

// UNFOLD_KindMatrix (C13, C14): every event kind (bool, string by value and by
// reference from a buffer scribbled afterwards, nil, byte, the integer and float
// kinds, a nested array, a nested object) x every primitive target type (bool,
// string, float32, float64 and two integer types standing for the ten of
// UNFOLD_ConvPos) x 11 positions: a kind that does not match the target is an error
// or is refused - never a crash or a write elsewhere; a matching kind stores exactly
// the value.
func UNFOLD_KindMatrix(h *rt.H) {
	pos := h.Choose("pos", 0, numUnfoldPos-1)
	kind := h.Choose("kind", 0, 9)
	x := h.U64("x")
	sb := []byte{byte(x), 'z'}
	deliver := func(v structform.ExtVisitor) error {
		switch kind {
		case 0:
			return v.OnBool(x&1 == 1)
		case 1:
			return v.OnString(string(sb))
		case 2:
			buf := cloneBytes(sb)
			err := v.OnStringRef(buf)
			buf[0], buf[1] = 0xEE, 0xEE
			return err
		case 3:
			return v.OnNil()
		case 4:
			return v.OnByte(byte(x))
		case 5:
			return v.OnInt8(int8(x))
		case 6:
			return v.OnUint64(x)
		case 7:
			return v.OnFloat32(math.Float32frombits(uint32(x)))
		case 8:
			return v.OnFloat64(math.Float64frombits(x))
		}
		// 9: a container where a primitive is expected
		if err := v.OnArrayStart(1, structform.AnyType); err != nil {
			return err
		}
		if err := v.OnInt8(1); err != nil {
			return err
		}
		return v.OnArrayFinished()
	}
	notNaN32 := uint32(x)&0x7f800000 != 0x7f800000
	notNaN64 := x&0x7ff0000000000000 != 0x7ff0000000000000
	switch h.Choose("type", 0, 5) {
	case 0:
		unfoldKind(h, pos, deliver, kind == 0, func(g bool) bool { return g == (x&1 == 1) })
	case 1:
		unfoldKind(h, pos, deliver, kind == 1 || kind == 2, func(g string) bool { return rt.BytesEq([]byte(g), sb) })
	case 2:
		h.Assume(kind != 7 || notNaN32)
		unfoldKind(h, pos, deliver, kind == 7, func(g float32) bool { return math.Float32bits(g) == uint32(x) })
	case 3:
		h.Assume((kind != 8 || notNaN64) && (kind != 7 || notNaN32))
		unfoldKind(h, pos, deliver, kind == 8 || kind == 7, func(g float64) bool {
			if kind == 7 {
				return g == float64(math.Float32frombits(uint32(x)))
			}
			return math.Float64bits(g) == x
		})
	case 4:
		unfoldKind(h, pos, deliver, kind == 5 || kind == 4 && byte(x) <= 127, func(g int8) bool { return g == int8(x) })
	case 5:
		unfoldKind(h, pos, deliver, kind == 6 || kind == 4, func(g uint64) bool {
			if kind == 4 {
				return g == uint64(byte(x))
			}
			return g == x
		})
	}
}

// ---- floats: float events into integer targets, integer events into float targets

type numT interface {
	intT | ~float32 | ~float64
}

// unfoldNum: deliver sends one numeric event carrying the small integer the target
// type can hold exactly; T sits at one of four positions.
func unfoldNum[T numT](h *rt.H, pos int, deliver func(structform.ExtVisitor) error, want T) {
	var (
		p0 []T
		p1 map[string]T
		p2 T
		p3 struct {
			B int8
			A T
		}
	)
	target := []interface{}{&p0, &p1, &p2, &p3}[pos]
	u, err := gotype.NewUnfolder(target)
	h.Assert("unfolder-created", err == nil)
	if err != nil {
		return
	}
	v := structform.EnsureExtVisitor(u)
	step := func(e error) {
		if err == nil {
			err = e
		}
	}
	byRef := h.Choose("keyRef", 0, 1) == 1
	key := func(k string) {
		if byRef {
			buf := []byte(k)
			step(v.OnKeyRef(buf))
			buf[0] = 0xEE
		} else {
			step(v.OnKey(k))
		}
	}
	switch pos {
	case 0:
		step(v.OnArrayStart(1, structform.AnyType))
		step(deliver(v))
		step(v.OnArrayFinished())
	case 1:
		step(v.OnObjectStart(1, structform.AnyType))
		key("k")
		step(deliver(v))
		step(v.OnObjectFinished())
	case 2:
		step(deliver(v))
	case 3:
		step(v.OnObjectStart(-1, structform.AnyType))
		key("a")
		step(deliver(v))
		step(v.OnObjectFinished())
	}
	h.Assert("no-error", err == nil)
	var got T
	ok := false
	switch pos {
	case 0:
		if ok = len(p0) == 1; ok {
			got = p0[0]
		}
	case 1:
		got, ok = p1["k"]
	case 2:
		got, ok = p2, true
	case 3:
		got, ok = p3.A, p3.B == 0
	}
	h.Assert("shape", ok)
	h.Assert("value", got == want)
}

// UNFOLD_FloatConv (C13): numbers cross the integer/float divide whenever the value
// fits: a float32/float64 event with an integral value into each integer type, each
// integer event kind into float32 and float64, float32 into float64 and back; the
// value is one of four small integers (exactly representable everywhere), the target
// sits in a slice, a map (key by value or by reference), alone, or in a struct.
func UNFOLD_FloatConv(h *rt.H) {
	// four concrete values: with a symbolic value every path needs floating-point
	// conversion queries (about 1 s each, 26 minutes of solver time for the matrix);
	// the all-values argument for conversions is UNFOLD_Conv's, this harness covers
	// the type x event x position matrix
	x := []int8{-3, 0, 7, 100}[h.Choose("x", 0, 3)]
	pos := h.Choose("pos", 0, 3)
	f32 := func(v structform.ExtVisitor) error { return v.OnFloat32(float32(x)) }
	f64 := func(v structform.ExtVisitor) error { return v.OnFloat64(float64(x)) }
	fl := f32
	if h.Choose("f64", 0, 1) == 1 {
		fl = f64
	}
	switch h.Choose("target", 0, 11) {
	case 0:
		unfoldNum(h, pos, fl, x)
	case 1:
		unfoldNum(h, pos, fl, int16(x))
	case 2:
		unfoldNum(h, pos, fl, int32(x))
	case 3:
		unfoldNum(h, pos, fl, int64(x))
	case 4:
		unfoldNum(h, pos, fl, int(x))
	case 5:
		h.Assume(x >= 0)
		unfoldNum(h, pos, fl, uint8(x))
	case 6:
		h.Assume(x >= 0)
		unfoldNum(h, pos, fl, uint16(x))
	case 7:
		h.Assume(x >= 0)
		unfoldNum(h, pos, fl, uint32(x))
	case 8:
		h.Assume(x >= 0)
		unfoldNum(h, pos, fl, uint64(x))
	case 9:
		h.Assume(x >= 0)
		unfoldNum(h, pos, fl, uint(x))
	case 10, 11:
		// integer and float events into float targets
		k := h.Choose("event", 0, 12)
		if k >= 5 && k <= 10 {
			h.Assume(x >= 0)
		}
		ev := func(v structform.ExtVisitor) error {
			switch k {
			case 11:
				return v.OnFloat32(float32(x))
			case 12:
				return v.OnFloat64(float64(x))
			}
			return callScalar(k, uint64(int64(x)), v)
		}
		if h.Choose("wide", 0, 1) == 1 {
			unfoldNum(h, pos, ev, float64(x))
		} else {
			unfoldNum(h, pos, ev, float32(x))
		}
	}
}

type ignTarget struct {
	A int8
	Z int8
}

// UNFOLD_Ignore (C13): an object member without a matching field is skipped whatever
// it is: every scalar event kind (strings and keys by value and by reference), alone,
// inside an array, inside an object, typed containers; the members around it are
// assigned as usual.
func UNFOLD_Ignore(h *rt.H) {
	x := h.U64("x")
	var to ignTarget
	u, err := gotype.NewUnfolder(&to)
	h.Assert("unfolder-created", err == nil)
	v := structform.EnsureExtVisitor(u)
	step := func(e error) {
		if err == nil {
			err = e
		}
	}
	kind := h.Choose("kind", 0, 17)
	scalar := func() {
		switch {
		case kind <= 12:
			step(callScalar(kind, x, v))
		case kind == 13:
			step(v.OnBool(x&1 == 1))
		case kind == 14:
			step(v.OnNil())
		case kind == 15:
			step(v.OnString("s"))
		case kind == 16:
			step(v.OnStringRef([]byte("ref")))
		case kind == 17:
			step(v.OnInt8Array([]int8{int8(x), 2})) // extended event, expanded by the adapter
		}
	}
	step(v.OnObjectStart(-1, structform.AnyType))
	step(v.OnKey("a"))
	step(v.OnInt8(int8(x)))
	step(v.OnKey("unknown"))
	switch h.Choose("nest", 0, 3) {
	case 0:
		scalar()
	case 1:
		step(v.OnArrayStart(2, structform.AnyType))
		scalar()
		scalar()
		step(v.OnArrayFinished())
	case 2:
		step(v.OnObjectStart(-1, structform.AnyType))
		step(v.OnKeyRef([]byte("k")))
		scalar()
		step(v.OnKey("kk"))
		step(v.OnArrayStart(-1, structform.Int8Type))
		scalar()
		step(v.OnArrayFinished())
		step(v.OnObjectFinished())
	case 3:
		step(v.OnArrayStart(1, structform.AnyType))
		step(v.OnObjectStart(1, structform.AnyType))
		step(v.OnKey("k"))
		scalar()
		step(v.OnObjectFinished())
		step(v.OnArrayFinished())
	}
	step(v.OnKey("z"))
	step(v.OnInt8(int8(x >> 8)))
	step(v.OnObjectFinished())
	h.Assert("no-error", err == nil)
	h.Assert("neighbours", rt.And(to.A == int8(x), to.Z == int8(x>>8)))
}
