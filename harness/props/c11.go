package props

import (
	structform "github.com/elastic/go-structform"
	"math"

	"github.com/elastic/go-structform/gotype"

	"verif/harness/ev"
	"verif/harness/gen"
	"verif/harness/rt"
)

// toGo builds generic Go data (what Unfold into interface{} produces) from a node.
func toGo(n *gen.Node) interface{} {
	switch n.K {
	case gen.KNil:
		return nil
	case gen.KBool:
		return n.Bits == 1
	case gen.KInt:
		return int64(n.Bits)
	case gen.KUint:
		return n.Bits
	case gen.KF32:
		return math.Float32frombits(uint32(n.Bits))
	case gen.KF64:
		return math.Float64frombits(n.Bits)
	case gen.KStr:
		return string(n.Str)
	case gen.KArr:
		a := make([]interface{}, 0, len(n.Kids))
		for _, k := range n.Kids {
			a = append(a, toGo(k))
		}
		return a
	case gen.KObj:
		m := map[string]interface{}{}
		for i, k := range n.Kids {
			m[string(n.Keys[i])] = toGo(k)
		}
		return m
	}
	return nil
}

// foldUnfoldGeneric (C11a): generic data folded and unfolded into an empty interface,
// directly (via 0) or through the encoder and parser of a codec (via 1..3).
func foldUnfoldGeneric(h *rt.H, via *codec) {
	cfg := genCfg(h)
	if via == jsonCodec {
		cfg.ASCII = true
	}
	n := gen.Value(h, cfg)
	distinctKeys(h, n)
	v := toGo(n)
	var to interface{}
	u, err := gotype.NewUnfolder(&to)
	h.Assert("unfolder-created", err == nil)
	if via == nil {
		err = gotype.Fold(v, u)
		h.Assert("no-error", err == nil)
	} else {
		out := &sink{}
		err = gotype.Fold(v, via.newVisitor(out))
		h.Assert("folded", err == nil)
		err = via.parse(cloneBytes(out.B), u)
		h.Assert("parsed", err == nil)
	}
	h.Assert("deep-equal", matches(to, n))
}

func FOLDUNFOLD_Generic(h *rt.H)        { foldUnfoldGeneric(h, nil) }
func FOLDUNFOLD_Generic_cborl(h *rt.H)  { foldUnfoldGeneric(h, cborCodec) }
func FOLDUNFOLD_Generic_ubjson(h *rt.H) { foldUnfoldGeneric(h, ubjsonCodec) }
func FOLDUNFOLD_Generic_json(h *rt.H)   { foldUnfoldGeneric(h, jsonCodec) }

type selfRef struct {
	V    int
	Next *selfRef
	Kids []selfRef
	M    map[string]*selfRef `struct:",omitempty"`
}

// SELFREF (C11): self-referential types (a struct through a pointer, a slice and a
// map field; a slice type and a map type that contain themselves) are folded and
// unfolded like any other type - or refused with an error, never by a crash
// (unbounded recursion while the folder/unfolder is compiled).
func SELFREF(h *rt.H) {
	x, y := int8(h.U8("x")), int8(h.U8("y"))
	var err, nerr error
	ok := false
	switch h.Choose("type", 0, 2) {
	case 0:
		h.Tag("selfref.struct")
		v := selfRef{V: int(x), Next: &selfRef{V: int(y), Kids: []selfRef{{V: int(x)}}}, M: map[string]*selfRef{"k": {V: int(y)}}}
		var out selfRef
		u, e := gotype.NewUnfolder(&out)
		if nerr = e; e == nil {
			err = gotype.Fold(v, u)
		}
		ok = out.Next != nil && out.Next.Next == nil && len(out.Kids) == 0 && len(out.Next.Kids) == 1 && out.M["k"] != nil
		if ok {
			ok = rt.And(rt.And(out.V == int(x), out.Next.V == int(y)), rt.And(out.Next.Kids[0].V == int(x), out.M["k"].V == int(y)))
		}
	case 1:
		h.Tag("selfref.slice")
		v := selfSlice{selfSlice{}, selfSlice{selfSlice{}}}
		var out selfSlice
		u, e := gotype.NewUnfolder(&out)
		if nerr = e; e == nil {
			err = gotype.Fold(v, u)
		}
		ok = len(out) == 2 && len(out[0]) == 0 && len(out[1]) == 1 && len(out[1][0]) == 0
	case 2:
		h.Tag("selfref.map")
		v := selfMap{"a": selfMap{"b": selfMap{}}}
		var out selfMap
		u, e := gotype.NewUnfolder(&out)
		if nerr = e; e == nil {
			err = gotype.Fold(v, u)
		}
		ok = len(out) == 1 && len(out["a"]) == 1 && out["a"]["b"] != nil && len(out["a"]["b"]) == 0
	}
	if nerr != nil {
		h.Tag("target-refused")
		return
	}
	h.Assert("no-error", err == nil)
	h.Assert("deep-equal", ok)
}

// selfBad refers to itself and has a member no folder or unfolder exists for.
type selfBad struct {
	B []selfBad
	P *selfBad
	C chan int
}

// SELFREF_Refused (C11, C14, C17): a self-referential type that cannot be handled is
// refused with an error; using the same iterator / unfolder afterwards for a type
// that refers to the refused one is refused with an error as well (or handled) -
// never a crash on a half-built folder or unfolder.
func SELFREF_Refused(h *rt.H) {
	var rec ev.Recorder
	if h.Choose("unfold", 0, 1) == 0 {
		it, err := gotype.NewIterator(&rec)
		h.Assert("iterator-created", err == nil)
		h.Assert("refused", it.Fold(selfBad{}) != nil)
		switch h.Choose("next", 0, 2) {
		case 0:
			h.ObserveBool("slice-refused", it.Fold([]selfBad{{}}) != nil)
		case 1:
			h.ObserveBool("pointer-refused", it.Fold(&selfBad{}) != nil)
		case 2:
			h.Assert("other-types-still-fold", it.Fold(selfRef{V: 1}) == nil)
		}
		return
	}
	u, err := gotype.NewUnfolder(nil)
	h.Assert("unfolder-created", err == nil)
	h.Assert("refused", u.SetTarget(&selfBad{}) != nil)
	v := structform.EnsureExtVisitor(u)
	feed := func() error {
		if err := v.OnArrayStart(-1, structform.AnyType); err != nil {
			return err
		}
		if err := v.OnObjectStart(-1, structform.AnyType); err != nil {
			return err
		}
		if err := v.OnObjectFinished(); err != nil {
			return err
		}
		return v.OnArrayFinished()
	}
	switch h.Choose("next", 0, 2) {
	case 0:
		var t []selfBad
		if u.SetTarget(&t) == nil {
			h.ObserveBool("slice-events-refused", feed() != nil)
		}
	case 1:
		var t *selfBad
		if u.SetTarget(&t) == nil {
			err := v.OnObjectStart(-1, structform.AnyType)
			if err == nil {
				err = v.OnObjectFinished()
			}
			h.ObserveBool("pointer-events-refused", err != nil)
		}
	case 2:
		var t []selfRef
		h.Assert("other-types-still-unfold", u.SetTarget(&t) == nil && feed() == nil && len(t) == 1)
	}
}

type selfSlice []selfSlice
type selfMap map[string]selfMap

type nullCounter struct{ ev.Recorder }

type ptIn struct{ A int8 }
type ptKey string

type ptFields struct {
	F **ptIn
	G int8
	M map[string]*ptIn
	S []**ptIn
	Q *[]int8
}

// FOLDUNFOLD_Pointers (C11, C13, C14): pointers to structs, slices and maps below
// maps, pointers, slices and struct fields (the child-done notification has to travel
// up through every pointer level), and maps with a named string key type: fold then
// unfold into a fresh variable reproduces the value.
func FOLDUNFOLD_Pointers(h *rt.H) {
	x, y := int8(h.U8("x")), int8(h.U8("y"))
	i1, i2 := &ptIn{x}, &ptIn{y}
	sl := []int8{x, y}
	psl := &sl
	mp := map[string]int8{"k": x}
	pmp := &mp
	ok := false
	var err, nerr error
	fu := func(v, out interface{}) {
		var u *gotype.Unfolder
		u, nerr = gotype.NewUnfolder(out)
		if nerr == nil {
			err = gotype.Fold(v, u)
		}
	}
	switch h.Choose("shape", 0, 11) {
	case 10: // nil values in a map nested in a map: every entry under its own key
		var out map[string]map[string]*int8
		fu(map[string]map[string]*int8{"cpu": {"min": nil, "max": &x}, "net": {"min": nil}}, &out)
		ok = len(out) == 2 && len(out["cpu"]) == 2 && len(out["net"]) == 1 && out["cpu"]["max"] != nil && out["cpu"]["min"] == nil && out["net"]["min"] == nil
		if ok {
			_, hasMin := out["cpu"]["min"]
			ok = hasMin && *out["cpu"]["max"] == x
		}
	case 11:
		var out struct {
			M map[string]map[string]*ptIn
			N int8
		}
		fu(struct {
			M map[string]map[string]*ptIn
			N int8
		}{map[string]map[string]*ptIn{"a": {"n": nil}, "b": {"p": i1}}, y}, &out)
		ok = len(out.M) == 2 && len(out.M["a"]) == 1 && len(out.M["b"]) == 1 && out.M["b"]["p"] != nil && out.N == y
		if ok {
			ok = out.M["b"]["p"].A == x
		}
	case 0:
		var out map[string]*ptIn
		fu(map[string]*ptIn{"a": i1, "b": i2}, &out)
		ok = len(out) == 2 && out["a"] != nil && out["b"] != nil && rt.And(out["a"].A == x, out["b"].A == y)
	case 1:
		var out map[string]*[]int8
		fu(map[string]*[]int8{"a": psl, "b": psl}, &out)
		ok = len(out) == 2 && out["a"] != nil && out["b"] != nil && len(*out["a"]) == 2 && len(*out["b"]) == 2 && rt.And((*out["a"])[0] == x, (*out["b"])[1] == y)
	case 2:
		var out **ptIn
		fu(&i1, &out)
		ok = out != nil && *out != nil && (*out).A == x
	case 3:
		var out []**ptIn
		fu([]**ptIn{&i1, &i2}, &out)
		ok = len(out) == 2 && out[0] != nil && *out[0] != nil && out[1] != nil && *out[1] != nil && rt.And((*out[0]).A == x, (*out[1]).A == y)
	case 4:
		var out ptFields
		fu(ptFields{F: &i1, G: y, M: map[string]*ptIn{"a": i2}, S: []**ptIn{&i1}, Q: psl}, &out)
		ok = out.F != nil && *out.F != nil && out.M["a"] != nil && len(out.S) == 1 && out.S[0] != nil && *out.S[0] != nil && out.Q != nil && len(*out.Q) == 2
		if ok {
			ok = rt.And(rt.And((*out.F).A == x, out.G == y), rt.And(rt.And(out.M["a"].A == y, (*out.S[0]).A == x), rt.And((*out.Q)[0] == x, (*out.Q)[1] == y)))
		}
	case 5:
		var out map[string]**[]int8
		fu(map[string]**[]int8{"a": &psl, "b": &psl}, &out)
		ok = len(out) == 2 && out["a"] != nil && *out["a"] != nil && len(**out["a"]) == 2 && out["b"] != nil && *out["b"] != nil && len(**out["b"]) == 2 && rt.And((**out["a"])[0] == x, (**out["b"])[1] == y)
	case 6:
		var out ***map[string]int8
		ppm := &pmp
		fu(&ppm, &out)
		ok = out != nil && *out != nil && **out != nil && len(***out) == 1 && (***out)["k"] == x
	case 7:
		var out map[ptKey][]int8
		fu(map[ptKey][]int8{"a": {x}, "b": {y}}, &out)
		ok = len(out) == 2 && len(out["a"]) == 1 && len(out["b"]) == 1 && rt.And(out["a"][0] == x, out["b"][0] == y)
	case 8:
		var out map[ptKey]ptIn
		fu(map[ptKey]ptIn{"a": {x}}, &out)
		ok = len(out) == 1 && out["a"].A == x
	case 9:
		var out map[ptKey]int8
		fu(map[ptKey]int8{"a": x}, &out)
		ok = len(out) == 1 && out["a"] == x
	}
	if nerr != nil {
		// a type that cannot be handled may be refused when the target is set
		h.Tag("target-refused")
		return
	}
	h.Assert("no-error", err == nil)
	h.Assert("deep-equal", ok)
}

type strIface interface{ String() string }

type mifStruct struct {
	A int8
	F strIface
}

// UNFOLD_MethodIface (C14, C15): targets that would have to store the stream's
// values in an interface type with methods (a struct field, slice element, map
// element or the target itself): no value a stream can deliver is assignable to it,
// so the target is refused or every event that would store into it returns an error;
// the unfolder never writes a value through an invalid reinterpretation of the
// interface (the engine's view check; natively the stored value is used afterwards).
func UNFOLD_MethodIface(h *rt.H) {
	x := int8(h.U8("x"))
	var (
		st  mifStruct
		sl  []strIface
		mp  map[string]strIface
		top strIface
	)
	which := h.Choose("target", 0, 3)
	target := []interface{}{&st, &sl, &mp, &top}[which]
	u, err := gotype.NewUnfolder(target)
	if err != nil {
		h.Tag("target-refused")
		return
	}
	v := structform.EnsureExtVisitor(u)
	step := func(e error) {
		if err == nil {
			err = e
		}
	}
	val := func() {
		switch h.Choose("value", 0, 3) {
		case 0:
			step(v.OnString("abc"))
		case 1:
			step(v.OnInt8(x))
		case 2:
			step(v.OnBool(true))
		case 3:
			step(v.OnObjectStart(-1, structform.AnyType))
			step(v.OnKey("k"))
			step(v.OnInt8(x))
			step(v.OnObjectFinished())
		}
	}
	switch which {
	case 0:
		step(v.OnObjectStart(-1, structform.AnyType))
		step(v.OnKey("a"))
		step(v.OnInt8(x))
		step(v.OnKey("f"))
		val()
		step(v.OnObjectFinished())
	case 1:
		step(v.OnArrayStart(-1, structform.AnyType))
		val()
		step(v.OnArrayFinished())
	case 2:
		step(v.OnObjectStart(-1, structform.AnyType))
		step(v.OnKey("f"))
		val()
		step(v.OnObjectFinished())
	case 3:
		val()
	}
	// whatever was stored must be usable as what its static type says
	use := func(s strIface) bool { return s == nil || len(s.String()) >= 0 }
	okUse := use(st.F) && use(top)
	for _, e := range sl {
		okUse = okUse && use(e)
	}
	for _, e := range mp {
		okUse = okUse && use(e)
	}
	h.Assert("stored-values-usable", okUse)
	h.Assert("mismatch-is-an-error", err != nil)
}
