package props

import (
	"math"

	"github.com/elastic/go-structform/gotype"

	"verif/harness/ev"
	"verif/harness/gen"
	"verif/harness/rt"
)

// toGo builds generic Go data (what Unfold into interface{} produces) from a node.
func toGo(n *gen.Node) interface{} {
	switch n.K {
	case gen.KNil:
		return nil
	case gen.KBool:
		return n.Bits == 1
	case gen.KInt:
		return int64(n.Bits)
	case gen.KUint:
		return n.Bits
	case gen.KF32:
		return math.Float32frombits(uint32(n.Bits))
	case gen.KF64:
		return math.Float64frombits(n.Bits)
	case gen.KStr:
		return string(n.Str)
	case gen.KArr:
		a := make([]interface{}, 0, len(n.Kids))
		for _, k := range n.Kids {
			a = append(a, toGo(k))
		}
		return a
	case gen.KObj:
		m := map[string]interface{}{}
		for i, k := range n.Kids {
			m[string(n.Keys[i])] = toGo(k)
		}
		return m
	}
	return nil
}

// foldUnfoldGeneric (C11a): generic data folded and unfolded into an empty interface,
// directly (via 0) or through the encoder and parser of a codec (via 1..3).
func foldUnfoldGeneric(h *rt.H, via *codec) {
	cfg := genCfg(h)
	if via == jsonCodec {
		cfg.ASCII = true
	}
	n := gen.Value(h, cfg)
	distinctKeys(h, n)
	v := toGo(n)
	var to interface{}
	u, err := gotype.NewUnfolder(&to)
	h.Assert("unfolder-created", err == nil)
	if via == nil {
		err = gotype.Fold(v, u)
		h.Assert("no-error", err == nil)
	} else {
		out := &sink{}
		err = gotype.Fold(v, via.newVisitor(out))
		h.Assert("folded", err == nil)
		err = via.parse(cloneBytes(out.B), u)
		h.Assert("parsed", err == nil)
	}
	h.Assert("deep-equal", matches(to, n))
}

func FOLDUNFOLD_Generic(h *rt.H)        { foldUnfoldGeneric(h, nil) }
func FOLDUNFOLD_Generic_cborl(h *rt.H)  { foldUnfoldGeneric(h, cborCodec) }
func FOLDUNFOLD_Generic_ubjson(h *rt.H) { foldUnfoldGeneric(h, ubjsonCodec) }
func FOLDUNFOLD_Generic_json(h *rt.H)   { foldUnfoldGeneric(h, jsonCodec) }

type selfRef struct {
	V    int
	Next *selfRef
}

// SELFREF (C11): a self-referential type must be handled or refused with an error,
// not by a crash (unbounded recursion while the folder/unfolder is compiled).
func SELFREF(h *rt.H) {
	if h.Choose("unfold", 0, 1) == 1 {
		h.Tag("selfref.unfold")
		var to selfRef
		_, err := gotype.NewUnfolder(&to)
		h.ObserveBool("refused", err != nil)
		return
	}
	h.Tag("selfref.fold")
	var rec nullCounter
	err := gotype.Fold(selfRef{V: 1, Next: &selfRef{V: 2}}, &rec)
	h.Assert("fold-no-error", err == nil)
}

type nullCounter struct{ ev.Recorder }
