package props

import (
	"io"

	structform "github.com/elastic/go-structform"
	"github.com/elastic/go-structform/cborl"
	"github.com/elastic/go-structform/json"
	"github.com/elastic/go-structform/ubjson"

	"verif/harness/ev"
	"verif/harness/ref"
	"verif/harness/rt"
)

// writeParser is what the three parsers have in common for incremental feeding.
type writeParser interface {
	Write([]byte) (int, error)
	Parse([]byte) error
}

type nexter interface{ Next() error }

type codec struct {
	name        string
	parse       func([]byte, structform.Visitor) error
	parseString func(string, structform.Visitor) error
	parseReader func(io.Reader, structform.Visitor) (int64, error)
	newParser   func(structform.Visitor) writeParser
	newVisitor  func(io.Writer) structform.Visitor
	bytesDec    func([]byte, structform.Visitor) nexter
	readerDec   func(io.Reader, int, structform.Visitor) nexter
	refDecode   func(*rt.H, []byte) ([]ev.Event, int, int)
}

var cborCodec = &codec{
	name:        "cborl",
	parse:       cborl.Parse,
	parseString: cborl.ParseString,
	parseReader: cborl.ParseReader,
	newParser:   func(v structform.Visitor) writeParser { return cborl.NewParser(v) },
	newVisitor:  func(w io.Writer) structform.Visitor { return cborl.NewVisitor(w) },
	bytesDec:    func(b []byte, v structform.Visitor) nexter { return cborl.NewBytesDecoder(b, v) },
	readerDec:   func(r io.Reader, n int, v structform.Visitor) nexter { return cborl.NewDecoder(r, n, v) },
	refDecode:   ref.DecodeCBOR,
}

var ubjsonCodec = &codec{
	name:        "ubjson",
	parse:       ubjson.Parse,
	parseString: ubjson.ParseString,
	parseReader: ubjson.ParseReader,
	newParser:   func(v structform.Visitor) writeParser { return ubjson.NewParser(v) },
	newVisitor:  func(w io.Writer) structform.Visitor { return ubjson.NewVisitor(w) },
	bytesDec:    func(b []byte, v structform.Visitor) nexter { return ubjson.NewBytesDecoder(b, v) },
	readerDec:   func(r io.Reader, n int, v structform.Visitor) nexter { return ubjson.NewDecoder(r, n, v) },
	refDecode:   ref.DecodeUBJSON,
}

var jsonCodec = &codec{
	name:        "json",
	parse:       json.Parse,
	parseString: json.ParseString,
	parseReader: json.ParseReader,
	newParser:   func(v structform.Visitor) writeParser { return json.NewParser(v) },
	newVisitor:  func(w io.Writer) structform.Visitor { return json.NewVisitor(w) },
	bytesDec:    func(b []byte, v structform.Visitor) nexter { return json.NewBytesDecoder(b, v) },
	readerDec:   func(r io.Reader, n int, v structform.Visitor) nexter { return json.NewDecoder(r, n, v) },
	refDecode:   ref.DecodeJSON,
}

// chunkReader delivers the document in the chunks fixed by cuts (a cut after byte i
// iff cuts[i]); afterwards io.EOF. Each chunk is copied into the caller's buffer.
type chunkReader struct {
	doc  []byte
	cuts []bool
	pos  int
	// mode (io.Reader permits all of these): 0 plain; 1 the last chunk is returned
	// together with io.EOF; 2 one zero-length read (0, nil) before the first chunk;
	// 3 a zero-length read before the last chunk, which comes together with io.EOF
	mode   int
	zeroed bool
	calls  int
}

func (r *chunkReader) Read(p []byte) (int, error) {
	r.calls++
	if r.calls > 64+4*len(r.doc) {
		return 0, io.ErrNoProgress // harness guard: the caller keeps reading after EOF
	}
	if r.pos >= len(r.doc) {
		return 0, io.EOF
	}
	if len(p) == 0 {
		return 0, nil
	}
	end := r.pos + 1
	for end < len(r.doc) && !r.cuts[end-1] {
		end++
	}
	if !r.zeroed && (r.mode == 2 && r.pos == 0 || r.mode == 3 && end == len(r.doc)) {
		r.zeroed = true
		return 0, nil
	}
	n := copy(p, r.doc[r.pos:end])
	r.pos += n
	if r.pos == len(r.doc) && (r.mode == 1 || r.mode == 3) {
		return n, io.EOF
	}
	return n, nil
}

// newChunkReader: with parameter RDR=1 the reader's end-of-stream and zero-length
// behaviour is a symbolic choice as well.
func newChunkReader(h *rt.H, doc []byte, cuts []bool) *chunkReader {
	r := &chunkReader{doc: cloneBytes(doc), cuts: cuts}
	if h.Param("RDR", 0) == 1 {
		r.mode = h.Choose("readerMode", 0, 3)
	}
	return r
}

// sink collects encoder output; it fails from its FailAt-th write on (0 = never).
type sink struct {
	B      []byte
	Writes int
	FailAt int
}

func (s *sink) Write(p []byte) (int, error) {
	s.Writes++
	if s.FailAt > 0 && s.Writes >= s.FailAt {
		return 0, ev.ErrInjected
	}
	s.B = append(s.B, p...)
	return len(p), nil
}

// cutMask returns N-1 symbolic cut decisions, concretised (the chunk structure is
// per-path concrete, all 2^(N-1) schedules are explored).
func cutMask(h *rt.H, n int) []bool {
	cuts := make([]bool, n)
	for i := 0; i+1 < n; i++ {
		cuts[i] = h.Choose("cut", 0, 1) == 1
	}
	return cuts
}

func minInt(a, b int) int {
	if a < b {
		return a
	}
	return b
}
