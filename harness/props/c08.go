package props

import (
	"verif/harness/ev"
	"verif/harness/ref"
	"verif/harness/rt"
)

// transcode (C08): the parser of src wired directly to the encoder of dst, input in
// two chunks; the target bytes, read by dst's reference decoder, describe the value
// src's reference decoder assigns to the source document. One or two documents.
func transcode(h *rt.H, src, dst *codec) {
	ndocs := h.Choose("docs", 1, h.Param("DOCS", 1))
	var stream []byte
	rep := &repChoice{}
	for i := 0; i < ndocs; i++ {
		d := shapedDocRep(h, src, rep)
		// streams are container documents (scalars have no separator in JSON output)
		if ndocs > 1 && len(d) > 0 && src == jsonCodec && d[0] != '[' && d[0] != '{' && d[0] != ' ' && d[0] != '\n' && d[0] != '\t' {
			h.Assume(false)
		}
		stream = append(stream, d...)
	}
	want, class, items := src.refDecode(h, stream)
	h.Assume(class == ref.OK && items == ndocs)
	if ndocs > 1 {
		// only containers at top level
		h.Assume(len(want) > 0 && (want[0].K == ev.ArrStart || want[0].K == ev.ObjStart))
	}
	out := &sink{}
	enc := dst.newVisitor(out)
	cuts := make([]bool, len(stream))
	if len(stream) > 1 {
		cuts[h.Choose("cut", 0, len(stream)-2)] = true
	}
	_, err := src.parseReader(newChunkReader(h, stream, cuts), enc)
	h.Assert("transcoded", err == nil)
	got, gclass, gitems := dst.refDecode(h, out.B)
	h.Assert("valid-target", gclass == ref.OK && gitems == ndocs)
	h.Assert("value", ev.Equal(got, want))
	h.ObserveBytes("target", out.B)
}

func XCODE_cborl_cborl(h *rt.H)   { transcode(h, cborCodec, cborCodec) }
func XCODE_cborl_ubjson(h *rt.H)  { transcode(h, cborCodec, ubjsonCodec) }
func XCODE_cborl_json(h *rt.H)    { transcode(h, cborCodec, jsonCodec) }
func XCODE_ubjson_cborl(h *rt.H)  { transcode(h, ubjsonCodec, cborCodec) }
func XCODE_ubjson_ubjson(h *rt.H) { transcode(h, ubjsonCodec, ubjsonCodec) }
func XCODE_ubjson_json(h *rt.H)   { transcode(h, ubjsonCodec, jsonCodec) }
func XCODE_json_cborl(h *rt.H)    { transcode(h, jsonCodec, cborCodec) }
func XCODE_json_ubjson(h *rt.H)   { transcode(h, jsonCodec, ubjsonCodec) }
func XCODE_json_json(h *rt.H)     { transcode(h, jsonCodec, jsonCodec) }
