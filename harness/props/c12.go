package props

import (
	structform "github.com/elastic/go-structform"
	"github.com/elastic/go-structform/gotype"

	"verif/harness/ev"
	"verif/harness/rt"
)

type fs1 struct {
	A string `struct:"a,omitempty"`
	B int
	c int
	D *int8  `struct:",omitempty"`
	E int16  `struct:"-"`
	F []byte `struct:"f,omitempty"`
}

// FOLD_S1 (C12): a tagged struct with symbolic field values; expected events derived
// from the documented rules (written out by hand for this type).
func FOLD_S1(h *rt.H) {
	v := fs1{B: int(h.U64("B")), c: 7, E: 9}
	var want []ev.Event
	if h.Choose("hasA", 0, 1) == 1 {
		a := h.Bytes("A", 1)
		v.A = string(a)
		want = append(want, ev.Event{K: ev.Key, Str: []byte("a")}, ev.Event{K: ev.String, Str: a})
	}
	want = append(want, ev.Event{K: ev.Key, Str: []byte("b")}, sNum(int64(v.B)))
	if h.Choose("hasD", 0, 1) == 1 {
		d := int8(h.U8("D"))
		v.D = &d
		want = append(want, ev.Event{K: ev.Key, Str: []byte("d")}, sNum(int64(d)))
	}
	want = append([]ev.Event{{K: ev.ObjStart}}, want...)
	want = append(want, ev.Event{K: ev.ObjEnd})
	var rec ev.Recorder
	err := gotype.Fold(v, &rec)
	h.Assert("no-error", err == nil)
	h.Assert("events", ev.Equal(ev.Normalise(rec.Events), want))
	h.Assert("contract", ev.Contract(rec.Events) == "")
}

// tagsT / setT: named slice and map types with a custom Folder; their unnamed forms
// have built-in folders, so a fast path taken too early would bypass the custom one.
type tagsT []string

func (t tagsT) Fold(v structform.ExtVisitor) error { return v.OnString("custom-tags") }

type setT map[string]bool

func (s setT) Fold(v structform.ExtVisitor) error { return v.OnInt8(int8(len(s))) }

type withFolder struct {
	T tagsT
	S setT `struct:"s"`
}

// FOLD_Folder (C12): a value whose type implements Folder is folded exactly as that
// folder emits it: at top level, as a value of generic containers, as a struct field.
func FOLD_Folder(h *rt.H) {
	where := h.Choose("where", 0, 4)
	t := tagsT{"a", "b"}
	s := setT{"x": true}
	var v interface{}
	var want []ev.Event
	ct := ev.Event{K: ev.String, Str: []byte("custom-tags")}
	cs := ev.NumEvent(false, 1)
	switch where {
	case 0:
		v, want = t, []ev.Event{ct}
	case 1:
		v, want = s, []ev.Event{cs}
	case 2:
		v, want = []interface{}{t, s}, []ev.Event{{K: ev.ArrStart}, ct, cs, {K: ev.ArrEnd}}
	case 3:
		v, want = map[string]interface{}{"k": t}, []ev.Event{{K: ev.ObjStart}, {K: ev.Key, Str: []byte("k")}, ct, {K: ev.ObjEnd}}
	case 4:
		v, want = withFolder{T: t, S: s}, []ev.Event{{K: ev.ObjStart}, {K: ev.Key, Str: []byte("t")}, ct, {K: ev.Key, Str: []byte("s")}, cs, {K: ev.ObjEnd}}
	}
	var rec ev.Recorder
	err := gotype.Fold(v, &rec)
	h.Assert("no-error", err == nil)
	h.Assert("custom-folder-used", ev.Equal(ev.Normalise(rec.Events), want))
}

type inlIfaceT struct {
	A int8
	I interface{} `struct:",inline"`
	Z int8
}

type inlIfaceU struct {
	I interface{} `struct:",inline"`
}

// FOLD_InlineIface (C12, C09, C16): a struct with an inlined interface member
// holding a struct, a pointer to a struct or a map: the members of the dynamic value
// appear as members of the outer object, in place; a failing visitor gets its own
// error back, whichever event it fails at (also inside the inlined part).
func FOLD_InlineIface(h *rt.H) {
	a, z := int8(h.U8("a")), int8(h.U8("z"))
	v := inlIfaceT{A: a, Z: z}
	want := []ev.Event{{K: ev.ObjStart}, {K: ev.Key, Str: []byte("a")}, sNum(int64(a))}
	switch h.Choose("dyn", 0, 6) {
	case 6: // nested objects and arrays inside the inlined value
		x := int8(h.U8("mx"))
		v.I = struct {
			O map[string]int8
			S []map[string]int8
		}{map[string]int8{"k": x}, []map[string]int8{{"l": x}}}
		k := func(s string) ev.Event { return ev.Event{K: ev.Key, Str: []byte(s)} }
		want = append(want, k("o"), ev.Event{K: ev.ObjStart}, k("k"), sNum(int64(x)), ev.Event{K: ev.ObjEnd},
			k("s"), ev.Event{K: ev.ArrStart}, ev.Event{K: ev.ObjStart}, k("l"), sNum(int64(x)), ev.Event{K: ev.ObjEnd}, ev.Event{K: ev.ArrEnd})
	case 4: // the inlined value inlines an interface value itself (same struct type)
		x := int8(h.U8("mx"))
		v.I = inlIfaceT{A: x, I: map[string]int8{"m": x}, Z: x}
		want = append(want, ev.Event{K: ev.Key, Str: []byte("a")}, sNum(int64(x)), ev.Event{K: ev.Key, Str: []byte("m")}, sNum(int64(x)), ev.Event{K: ev.Key, Str: []byte("z")}, sNum(int64(x)))
	case 5: // ... of another struct type, two levels
		x := int8(h.U8("mx"))
		v.I = &inlIfaceU{I: inlIfaceU{I: map[string]interface{}{"m": x}}}
		want = append(want, ev.Event{K: ev.Key, Str: []byte("m")}, sNum(int64(x)))
	case 0:
		in, evs := tInBuild(h)
		v.I = in
		want = append(want, evs...)
	case 1:
		in, evs := tInBuild(h)
		v.I = &in
		want = append(want, evs...)
	case 2:
		x := int8(h.U8("mx"))
		v.I = map[string]interface{}{"m": x}
		want = append(want, ev.Event{K: ev.Key, Str: []byte("m")}, sNum(int64(x)))
	case 3:
		x := int8(h.U8("mx"))
		v.I = map[string]int8{"m": x}
		want = append(want, ev.Event{K: ev.Key, Str: []byte("m")}, sNum(int64(x)))
	}
	want = append(want, ev.Event{K: ev.Key, Str: []byte("z")}, sNum(int64(z)), ev.Event{K: ev.ObjEnd})
	var rec ev.Recorder
	err := gotype.Fold(v, &rec)
	h.Assert("no-error", err == nil)
	h.Assert("events", ev.Equal(ev.Normalise(rec.Events), want))
	h.Assert("contract", ev.Contract(rec.Events) == "")
	if len(rec.Events) > 0 {
		k := h.Choose("failAt", 1, len(rec.Events))
		frec := ev.Recorder{FailAt: k}
		ferr := gotype.Fold(v, &frec)
		h.Assert("error-returned", ferr == ev.ErrInjected)
		h.Assert("no-event-after", frec.After == 0)
	}
}

// Custom folders and IsZero implementers in every position the mapping names.

type valF struct{ A int8 } // Folder with a value receiver: emits its member as a string-tagged pair

func (v valF) Fold(vs structform.ExtVisitor) error {
	if err := vs.OnArrayStart(1, structform.AnyType); err != nil {
		return err
	}
	if err := vs.OnInt8(v.A); err != nil {
		return err
	}
	return vs.OnArrayFinished()
}

type ptrF struct{ A int8 } // Folder with a pointer receiver

func (p *ptrF) Fold(vs structform.ExtVisitor) error { return vs.OnInt16(int16(p.A) + 1000) }

type objF struct{ A int8 } // Folder emitting an object (usable inline)

func (o objF) Fold(vs structform.ExtVisitor) error {
	if err := vs.OnObjectStart(1, structform.AnyType); err != nil {
		return err
	}
	if err := vs.OnKey("x"); err != nil {
		return err
	}
	if err := vs.OnInt8(o.A); err != nil {
		return err
	}
	return vs.OnObjectFinished()
}

type pzStruct struct{ A int8 } // IsZero with a pointer receiver, no Folder

func (p *pzStruct) IsZero() bool { return p.A == 0 }

type pzInt int16

func (p *pzInt) IsZero() bool { return *p == 0 }

type vzStruct struct{ A int8 } // IsZero with a value receiver

func (v vzStruct) IsZero() bool { return v.A == 0 }

type zSlice []int8 // named slice whose IsZero says "empty" although it has elements

func (z zSlice) IsZero() bool { return len(z) > 0 && z[0] == 0 }

type folderFields struct {
	ZL zSlice        `struct:"zl,omitempty"`
	ZA [0]int8       `struct:"za,omitempty"` // a zero-length array is empty
	ZB *[0]int8      `struct:"zb,omitempty"`
	P  *valF         // nil: null
	Q  *ptrF         // nil: null
	I  gotype.Folder // nil: null
	V  valF
	W  ptrF
	O  *valF    `struct:",omitempty"`
	Zs pzStruct `struct:"zs,omitempty"`
	Zi pzInt    `struct:"zi,omitempty"`
	Zv vzStruct `struct:"zv,omitempty"`
}

type inlFolder struct {
	A int8
	B objF `struct:",inline"`
}

// FOLD_FolderFields (C12, C09): pointers to, interfaces of and values of types with a
// custom Folder as struct fields, container elements and at top level, nil or not;
// omitempty fields whose emptiness is given by IsZero with value and pointer
// receivers. Expected events follow the documented mapping: nil pointer or interface
// => null; non-nil => exactly what the folder emits; IsZero()==true => omitted,
// otherwise the plain value of the field.
func FOLD_FolderFields(h *rt.H) {
	x := int8(h.U8("x"))
	vfEv := func(a int8) []ev.Event { return []ev.Event{{K: ev.ArrStart}, sNum(int64(a)), {K: ev.ArrEnd}} }
	pfEv := func(a int8) []ev.Event { return []ev.Event{sNum(int64(a) + 1000)} }
	key := func(k string) ev.Event { return ev.Event{K: ev.Key, Str: []byte(k)} }
	nilEv := []ev.Event{{K: ev.Nil}}
	var v interface{}
	var want []ev.Event
	switch h.Choose("where", 0, 7) {
	case 0: // struct fields
		f := folderFields{V: valF{x}, W: ptrF{x}, ZB: &[0]int8{}}
		want = []ev.Event{{K: ev.ObjStart}}
		add := func(k string, evs []ev.Event) { want = append(append(want, key(k)), evs...) }
		// omitempty on a named slice with IsZero: empty if it has no elements or says so
		switch h.Choose("ZL", 0, 2) {
		case 1:
			f.ZL = zSlice{0, 1} // IsZero() == true: omitted
		case 2:
			f.ZL = zSlice{1}
			add("zl", []ev.Event{{K: ev.ArrStart}, sNum(1), {K: ev.ArrEnd}})
		}
		if h.Choose("P", 0, 1) == 1 {
			f.P = &valF{x}
			add("p", vfEv(x))
		} else {
			add("p", nilEv)
		}
		if h.Choose("Q", 0, 1) == 1 {
			f.Q = &ptrF{x}
			add("q", pfEv(x))
		} else {
			add("q", nilEv)
		}
		switch h.Choose("I", 0, 3) {
		case 0:
			add("i", nilEv)
		case 1:
			f.I = valF{x}
			add("i", vfEv(x))
		case 2:
			f.I = &ptrF{x}
			add("i", pfEv(x))
		case 3:
			f.I = (*valF)(nil)
			add("i", nilEv)
		}
		add("v", vfEv(x))
		add("w", pfEv(x))
		if h.Choose("O", 0, 1) == 1 {
			f.O = &valF{x}
			add("o", vfEv(x))
		}
		z := int8(h.U8("z"))
		f.Zs, f.Zi, f.Zv = pzStruct{z}, pzInt(z), vzStruct{z}
		if z != 0 {
			obj := []ev.Event{{K: ev.ObjStart}, key("a"), sNum(int64(z)), {K: ev.ObjEnd}}
			add("zs", obj)
			add("zi", []ev.Event{sNum(int64(z))})
			add("zv", obj)
		}
		want = append(want, ev.Event{K: ev.ObjEnd})
		v = f
	case 1: // top level
		switch h.Choose("top", 0, 3) {
		case 0:
			v, want = (*valF)(nil), nilEv
		case 1:
			v, want = &valF{x}, vfEv(x)
		case 2:
			v, want = (*ptrF)(nil), nilEv
		case 3:
			v, want = &ptrF{x}, pfEv(x)
		}
	case 2: // slice elements
		v = []*valF{nil, {x}}
		want = append(append(append([]ev.Event{{K: ev.ArrStart}}, nilEv...), vfEv(x)...), ev.Event{K: ev.ArrEnd})
	case 3: // map values
		v = map[string]*valF{"k": nil}
		want = []ev.Event{{K: ev.ObjStart}, key("k"), {K: ev.Nil}, {K: ev.ObjEnd}}
	case 4: // generic containers
		v = []interface{}{(*valF)(nil), valF{x}, &ptrF{x}}
		want = append(append(append(append([]ev.Event{{K: ev.ArrStart}}, nilEv...), vfEv(x)...), pfEv(x)...), ev.Event{K: ev.ArrEnd})
	case 5: // interface-typed field holding a nil pointer to a Folder type
		v = struct{ I interface{} }{I: (*valF)(nil)}
		want = []ev.Event{{K: ev.ObjStart}, key("i"), {K: ev.Nil}, {K: ev.ObjEnd}}
	case 6: // slice of values with pointer-receiver folder
		v = []ptrF{{x}}
		want = append(append([]ev.Event{{K: ev.ArrStart}}, pfEv(x)...), ev.Event{K: ev.ArrEnd})
	case 7: // inlined struct with a Folder emitting an object: its members, in place
		v = inlFolder{A: x, B: objF{x}}
		want = []ev.Event{{K: ev.ObjStart}, key("a"), sNum(int64(x)), key("x"), sNum(int64(x)), {K: ev.ObjEnd}}
	}
	var rec ev.Recorder
	err := gotype.Fold(v, &rec)
	h.Assert("no-error", err == nil)
	h.Assert("events", ev.Equal(ev.Normalise(rec.Events), want))
	h.Assert("contract", ev.Contract(rec.Events) == "")
}

type lvlT int8 // named primitive with a custom folder

func (l lvlT) Fold(v structform.ExtVisitor) error { return v.OnString("lvl") }

type strT string // named string with a method, used through an interface with methods

func (s strT) String() string { return string(s) }

type strIfaceF interface{ String() string }

// FOLD_Kinds (C12, C15): kinds the struct family does not reach: arrays at top
// level, inside generic containers and as struct fields; maps whose element type is
// a named primitive with a custom folder, or an interface type with methods; named
// map and slice types of these.
func FOLD_Kinds(h *rt.H) {
	x, y := int8(h.U8("x")), int8(h.U8("y"))
	key := func(k string) ev.Event { return ev.Event{K: ev.Key, Str: []byte(k)} }
	arr := func(evs ...ev.Event) []ev.Event {
		return append(append([]ev.Event{{K: ev.ArrStart}}, evs...), ev.Event{K: ev.ArrEnd})
	}
	str := func(s string) ev.Event { return ev.Event{K: ev.String, Str: []byte(s)} }
	var v interface{}
	var want []ev.Event
	switch h.Choose("kind", 0, 9) {
	case 0:
		v, want = [2]int8{x, y}, arr(sNum(int64(x)), sNum(int64(y)))
	case 1:
		v, want = [3]uint16{uint16(uint8(x)), 7, 8}, arr(ev.NumEvent(false, uint64(uint8(x))), ev.NumEvent(false, 7), ev.NumEvent(false, 8))
	case 2:
		v, want = []interface{}{[2]int8{x, y}, [1]string{"s"}}, arr(append(arr(sNum(int64(x)), sNum(int64(y))), arr(str("s"))...)...)
	case 3:
		v = map[string]interface{}{"a": [2]bool{true, false}}
		want = append(append([]ev.Event{{K: ev.ObjStart}, key("a")}, arr(ev.Event{K: ev.Bool, Bits: 1}, ev.Event{K: ev.Bool, Bits: 0})...), ev.Event{K: ev.ObjEnd})
	case 4:
		v = struct{ A [2]int8 }{[2]int8{x, y}}
		want = append(append([]ev.Event{{K: ev.ObjStart}, key("a")}, arr(sNum(int64(x)), sNum(int64(y)))...), ev.Event{K: ev.ObjEnd})
	case 5:
		v = map[string]lvlT{"k": lvlT(x)}
		want = []ev.Event{{K: ev.ObjStart}, key("k"), str("lvl"), {K: ev.ObjEnd}}
	case 6:
		v = struct {
			M map[string]lvlT
			N map[string]lvlT `struct:",inline"`
		}{map[string]lvlT{"k": lvlT(x)}, map[string]lvlT{"n": lvlT(y)}}
		want = []ev.Event{{K: ev.ObjStart}, key("m"), {K: ev.ObjStart}, key("k"), str("lvl"), {K: ev.ObjEnd}, key("n"), str("lvl"), {K: ev.ObjEnd}}
	case 7:
		v = map[string]strIfaceF{"k": strT("v")}
		want = []ev.Event{{K: ev.ObjStart}, key("k"), str("v"), {K: ev.ObjEnd}}
	case 8:
		v = struct {
			L map[string]strIfaceF
			I map[string]strIfaceF `struct:",inline"`
		}{map[string]strIfaceF{"k": strT("v")}, map[string]strIfaceF{"i": strT("w")}}
		want = []ev.Event{{K: ev.ObjStart}, key("l"), {K: ev.ObjStart}, key("k"), str("v"), {K: ev.ObjEnd}, key("i"), str("w"), {K: ev.ObjEnd}}
	case 9:
		v = []strIfaceF{strT("v"), nil}
		want = arr(str("v"), ev.Event{K: ev.Nil})
	}
	var rec ev.Recorder
	err := gotype.Fold(v, &rec)
	h.Assert("no-error", err == nil)
	h.Assert("events", ev.Equal(ev.Normalise(rec.Events), want))
	h.Assert("contract", ev.Contract(rec.Events) == "")
}

type ufT struct{ A int8 }

type ufMap map[string]int8

type ufObj struct{ X int8 }

type ufOuter struct {
	P *ufT
	V ufT
	S []ufT
	Q []*ufT
	M map[string]*ufT
	I interface{}
	N int8
}

// FOLD_UserFolders (C12, C09): a folder registered with gotype.Folders for *T is used
// for T and *T wherever they occur (top level, struct fields, slice and map elements,
// interface values, behind further pointers) and receives nil for a nil pointer; the
// events are exactly what the registered function emits.
type ufPS struct{ P *int8 }
type ufPA [1]*int8

func FOLD_UserFolders(h *rt.H) {
	x := int8(h.U8("x"))
	folder := func(p *ufT, v structform.ExtVisitor) error {
		if p == nil {
			return v.OnString("nil!")
		}
		return v.OnInt16(int16(p.A) + 1000)
	}
	t := ufT{x}
	pt := &t
	e := sNum(int64(x) + 1000)
	nilE := ev.Event{K: ev.String, Str: []byte("nil!")}
	key := func(k string) ev.Event { return ev.Event{K: ev.Key, Str: []byte(k)} }
	var v interface{}
	var want []ev.Event
	x8 := x
	switch h.Choose("where", 0, 16) {
	case 13: // pointer-shaped aggregates (one pointer field / one pointer element) by value
		v, want = ufPS{&x8}, []ev.Event{sNum(int64(x) + 3000)}
	case 14:
		v, want = map[string]ufPS{"k": {&x8}}, []ev.Event{{K: ev.ObjStart}, key("k"), sNum(int64(x) + 3000), {K: ev.ObjEnd}}
	case 15:
		v, want = struct{ I interface{} }{ufPA{&x8}}, []ev.Event{{K: ev.ObjStart}, key("i"), sNum(int64(x) + 4000), {K: ev.ObjEnd}}
	case 16:
		v, want = []interface{}{[]ufPS{{&x8}}, &ufPS{&x8}, ufPA{&x8}}, []ev.Event{{K: ev.ArrStart}, {K: ev.ArrStart}, sNum(int64(x) + 3000), {K: ev.ArrEnd}, sNum(int64(x) + 3000), sNum(int64(x) + 4000), {K: ev.ArrEnd}}
	case 0:
		v, want = &t, []ev.Event{e}
	case 1:
		v, want = t, []ev.Event{e}
	case 2:
		v, want = (*ufT)(nil), []ev.Event{nilE}
	case 3:
		v = ufOuter{P: &t, V: t, S: []ufT{t}, Q: []*ufT{&t, nil}, M: map[string]*ufT{"k": &t}, I: &t, N: 1}
		want = []ev.Event{{K: ev.ObjStart}, key("p"), e, key("v"), e, key("s"), {K: ev.ArrStart}, e, {K: ev.ArrEnd},
			key("q"), {K: ev.ArrStart}, e, nilE, {K: ev.ArrEnd}, key("m"), {K: ev.ObjStart}, key("k"), e, {K: ev.ObjEnd},
			key("i"), e, key("n"), sNum(1), {K: ev.ObjEnd}}
	case 4:
		v = ufOuter{V: t, N: 1}
		want = []ev.Event{{K: ev.ObjStart}, key("p"), nilE, key("v"), e, key("s"), {K: ev.ArrStart}, {K: ev.ArrEnd},
			key("q"), {K: ev.ArrStart}, {K: ev.ArrEnd}, key("m"), {K: ev.ObjStart}, {K: ev.ObjEnd},
			key("i"), {K: ev.Nil}, key("n"), sNum(1), {K: ev.ObjEnd}}
	case 5:
		v, want = struct{ I interface{} }{t}, []ev.Event{{K: ev.ObjStart}, key("i"), e, {K: ev.ObjEnd}}
	case 6:
		v, want = []ufT{t}, []ev.Event{{K: ev.ArrStart}, e, {K: ev.ArrEnd}}
	case 7:
		v, want = map[string]ufT{"k": t}, []ev.Event{{K: ev.ObjStart}, key("k"), e, {K: ev.ObjEnd}}
	case 8:
		v, want = &pt, []ev.Event{e}
	case 9: // a folder registered for a map type, value in a struct passed by value
		v = struct {
			A int8
			M ufMap
		}{x, ufMap{"k": 1}}
		want = []ev.Event{{K: ev.ObjStart}, key("a"), sNum(int64(x)), key("m"), sNum(2001), {K: ev.ObjEnd}}
	case 10: // ... at top level, in a slice, behind a pointer
		v, want = ufMap{"k": 1, "l": 2}, []ev.Event{sNum(2002)}
	case 11:
		m := ufMap{"k": 1}
		v, want = []interface{}{m, &m, []ufMap{m}}, []ev.Event{{K: ev.ArrStart}, sNum(2001), sNum(2001), {K: ev.ArrStart}, sNum(2001), {K: ev.ArrEnd}, {K: ev.ArrEnd}}
	case 12: // an inlined field whose type has a registered folder emitting an object
		v = struct {
			A int8
			B ufObj `struct:",inline"`
			Z int8
		}{x, ufObj{x}, 3}
		want = []ev.Event{{K: ev.ObjStart}, key("a"), sNum(int64(x)), key("custom"), sNum(int64(x)), key("z"), sNum(3), {K: ev.ObjEnd}}
	}
	mapFolder := func(m *ufMap, v structform.ExtVisitor) error { return v.OnInt16(2000 + int16(len(*m))) }
	objFolder := func(o *ufObj, v structform.ExtVisitor) error {
		if err := v.OnObjectStart(1, structform.AnyType); err != nil {
			return err
		}
		if err := v.OnKey("custom"); err != nil {
			return err
		}
		if err := v.OnInt8(o.X); err != nil {
			return err
		}
		return v.OnObjectFinished()
	}
	psFolder := func(p *ufPS, v structform.ExtVisitor) error { return v.OnInt16(3000 + int16(*p.P)) }
	paFolder := func(p *ufPA, v structform.ExtVisitor) error { return v.OnInt16(4000 + int16(*p[0])) }
	optA, optB := gotype.Folders(folder, mapFolder, psFolder, paFolder), gotype.Folders(objFolder)
	if h.Choose("optionsUsedBefore", 0, 1) == 1 {
		// the same option values configured another iterator before: an option is a
		// description, using it does not change it
		var other ev.Recorder
		it0, err0 := gotype.NewIterator(&other, optA, optB)
		h.Assert("first-iterator", err0 == nil && it0.Fold(ufObj{1}) == nil)
		if h.Choose("onlyA", 0, 1) == 1 {
			// ... this iterator gets optA alone: ufObj has no registered folder here
			var rec ev.Recorder
			it, err := gotype.NewIterator(&rec, optA)
			h.Assert("iterator-created", err == nil)
			h.Assert("no-error", it.Fold(ufObj{x}) == nil)
			h.Assert("events", ev.Equal(ev.Normalise(rec.Events), []ev.Event{{K: ev.ObjStart}, key("x"), sNum(int64(x)), {K: ev.ObjEnd}}))
			return
		}
	}
	var rec ev.Recorder
	it, err := gotype.NewIterator(&rec, optA, optB)
	h.Assert("iterator-created", err == nil)
	if err != nil {
		return
	}
	err = it.Fold(v)
	h.Assert("no-error", err == nil)
	h.Assert("events", ev.Equal(ev.Normalise(rec.Events), want))
	h.Assert("contract", ev.Contract(rec.Events) == "")
}

// FOLD_UserFolderSigs (C12, C15): Folders is given a function whose signature is not
// func(*T, structform.ExtVisitor) error. The function is called through an unsafe
// conversion to that shape, so anything else must be refused when the option is
// applied - or, if accepted, must work: folding a T emits what the function emits
// and no invalid conversion takes place.
func FOLD_UserFolderSigs(h *rt.H) {
	x := int8(h.U8("x"))
	var fn interface{}
	valid := false
	switch h.Choose("sig", 0, 6) {
	case 0:
		valid = true
		fn = func(p *ufT, v structform.ExtVisitor) error { return v.OnInt16(int16(p.A) + 1000) }
	case 1: // a narrower interface: ExtVisitor implements it, the method tables differ
		fn = func(p *ufT, v structform.Visitor) error { return v.OnInt16(int16(p.A) + 1000) }
	case 2:
		fn = func(p *ufT, v interface{}) error { return v.(structform.Visitor).OnInt16(int16(p.A) + 1000) }
	case 3: // value receiver
		fn = func(p ufT, v structform.ExtVisitor) error { return v.OnInt16(int16(p.A) + 1000) }
	case 4: // no error result
		fn = func(p *ufT, v structform.ExtVisitor) { _ = v.OnInt16(int16(p.A) + 1000) }
	case 5: // arguments swapped
		fn = func(v structform.ExtVisitor, p *ufT) error { return v.OnInt16(int16(p.A) + 1000) }
	case 6:
		fn = func(p *ufT, v structform.ArrayVisitor) error { return v.OnArrayFinished() }
	}
	var rec ev.Recorder
	it, err := gotype.NewIterator(&rec, gotype.Folders(fn))
	if valid {
		h.Assert("iterator-created", err == nil)
	}
	h.ObserveBool("refused", err != nil)
	if err != nil {
		return
	}
	var v interface{} = ufT{x}
	if h.Choose("ptr", 0, 1) == 1 {
		v = &ufT{x}
	}
	err = it.Fold(v)
	if valid {
		h.Assert("no-error", err == nil)
		h.Assert("events", ev.Equal(ev.Normalise(rec.Events), []ev.Event{sNum(int64(x) + 1000)}))
	}
}
