package props

import (
	structform "github.com/elastic/go-structform"
	"github.com/elastic/go-structform/gotype"

	"verif/harness/ev"
	"verif/harness/rt"
)

type fs1 struct {
	A string `struct:"a,omitempty"`
	B int
	c int
	D *int8  `struct:",omitempty"`
	E int16  `struct:"-"`
	F []byte `struct:"f,omitempty"`
}

// FOLD_S1 (C12): a tagged struct with symbolic field values; expected events derived
// from the documented rules (written out by hand for this type).
func FOLD_S1(h *rt.H) {
	v := fs1{B: int(h.U64("B")), c: 7, E: 9}
	var want []ev.Event
	if h.Choose("hasA", 0, 1) == 1 {
		a := h.Bytes("A", 1)
		v.A = string(a)
		want = append(want, ev.Event{K: ev.Key, Str: []byte("a")}, ev.Event{K: ev.String, Str: a})
	}
	want = append(want, ev.Event{K: ev.Key, Str: []byte("b")}, sNum(int64(v.B)))
	if h.Choose("hasD", 0, 1) == 1 {
		d := int8(h.U8("D"))
		v.D = &d
		want = append(want, ev.Event{K: ev.Key, Str: []byte("d")}, sNum(int64(d)))
	}
	want = append([]ev.Event{{K: ev.ObjStart}}, want...)
	want = append(want, ev.Event{K: ev.ObjEnd})
	var rec ev.Recorder
	err := gotype.Fold(v, &rec)
	h.Assert("no-error", err == nil)
	h.Assert("events", ev.Equal(ev.Normalise(rec.Events), want))
	h.Assert("contract", ev.Contract(rec.Events) == "")
}

// tagsT / setT: named slice and map types with a custom Folder; their unnamed forms
// have built-in folders, so a fast path taken too early would bypass the custom one.
type tagsT []string

func (t tagsT) Fold(v structform.ExtVisitor) error { return v.OnString("custom-tags") }

type setT map[string]bool

func (s setT) Fold(v structform.ExtVisitor) error { return v.OnInt8(int8(len(s))) }

type withFolder struct {
	T tagsT
	S setT `struct:"s"`
}

// FOLD_Folder (C12): a value whose type implements Folder is folded exactly as that
// folder emits it: at top level, as a value of generic containers, as a struct field.
func FOLD_Folder(h *rt.H) {
	where := h.Choose("where", 0, 4)
	t := tagsT{"a", "b"}
	s := setT{"x": true}
	var v interface{}
	var want []ev.Event
	ct := ev.Event{K: ev.String, Str: []byte("custom-tags")}
	cs := ev.NumEvent(false, 1)
	switch where {
	case 0:
		v, want = t, []ev.Event{ct}
	case 1:
		v, want = s, []ev.Event{cs}
	case 2:
		v, want = []interface{}{t, s}, []ev.Event{{K: ev.ArrStart}, ct, cs, {K: ev.ArrEnd}}
	case 3:
		v, want = map[string]interface{}{"k": t}, []ev.Event{{K: ev.ObjStart}, {K: ev.Key, Str: []byte("k")}, ct, {K: ev.ObjEnd}}
	case 4:
		v, want = withFolder{T: t, S: s}, []ev.Event{{K: ev.ObjStart}, {K: ev.Key, Str: []byte("t")}, ct, {K: ev.Key, Str: []byte("s")}, cs, {K: ev.ObjEnd}}
	}
	var rec ev.Recorder
	err := gotype.Fold(v, &rec)
	h.Assert("no-error", err == nil)
	h.Assert("custom-folder-used", ev.Equal(ev.Normalise(rec.Events), want))
}

type inlIfaceT struct {
	A int8
	I interface{} `struct:",inline"`
	Z int8
}

// FOLD_InlineIface (C12, C09, C16): a struct with an inlined interface member
// holding a struct, a pointer to a struct or a map: the members of the dynamic value
// appear as members of the outer object, in place; a failing visitor gets its own
// error back, whichever event it fails at (also inside the inlined part).
func FOLD_InlineIface(h *rt.H) {
	a, z := int8(h.U8("a")), int8(h.U8("z"))
	v := inlIfaceT{A: a, Z: z}
	want := []ev.Event{{K: ev.ObjStart}, {K: ev.Key, Str: []byte("a")}, sNum(int64(a))}
	switch h.Choose("dyn", 0, 3) {
	case 0:
		in, evs := tInBuild(h)
		v.I = in
		want = append(want, evs...)
	case 1:
		in, evs := tInBuild(h)
		v.I = &in
		want = append(want, evs...)
	case 2:
		x := int8(h.U8("mx"))
		v.I = map[string]interface{}{"m": x}
		want = append(want, ev.Event{K: ev.Key, Str: []byte("m")}, sNum(int64(x)))
	case 3:
		x := int8(h.U8("mx"))
		v.I = map[string]int8{"m": x}
		want = append(want, ev.Event{K: ev.Key, Str: []byte("m")}, sNum(int64(x)))
	}
	want = append(want, ev.Event{K: ev.Key, Str: []byte("z")}, sNum(int64(z)), ev.Event{K: ev.ObjEnd})
	var rec ev.Recorder
	err := gotype.Fold(v, &rec)
	h.Assert("no-error", err == nil)
	h.Assert("events", ev.Equal(ev.Normalise(rec.Events), want))
	h.Assert("contract", ev.Contract(rec.Events) == "")
	if len(rec.Events) > 0 {
		k := h.Choose("failAt", 1, len(rec.Events))
		frec := ev.Recorder{FailAt: k}
		ferr := gotype.Fold(v, &frec)
		h.Assert("error-returned", ferr == ev.ErrInjected)
		h.Assert("no-event-after", frec.After == 0)
	}
}
