package props

import (
	"github.com/elastic/go-structform/gotype"

	"verif/harness/ev"
	"verif/harness/rt"
)

type fs1 struct {
	A string `struct:"a,omitempty"`
	B int
	c int
	D *int8  `struct:",omitempty"`
	E int16  `struct:"-"`
	F []byte `struct:"f,omitempty"`
}

// FOLD_S1 (C12): a tagged struct with symbolic field values; expected events derived
// from the documented rules (written out by hand for this type).
func FOLD_S1(h *rt.H) {
	v := fs1{B: int(h.U64("B")), c: 7, E: 9}
	var want []ev.Event
	if h.Choose("hasA", 0, 1) == 1 {
		a := h.Bytes("A", 1)
		v.A = string(a)
		want = append(want, ev.Event{K: ev.Key, Str: []byte("a")}, ev.Event{K: ev.String, Str: a})
	}
	want = append(want, ev.Event{K: ev.Key, Str: []byte("b")}, sNum(int64(v.B)))
	if h.Choose("hasD", 0, 1) == 1 {
		d := int8(h.U8("D"))
		v.D = &d
		want = append(want, ev.Event{K: ev.Key, Str: []byte("d")}, sNum(int64(d)))
	}
	want = append([]ev.Event{{K: ev.ObjStart}}, want...)
	want = append(want, ev.Event{K: ev.ObjEnd})
	var rec ev.Recorder
	err := gotype.Fold(v, &rec)
	h.Assert("no-error", err == nil)
	h.Assert("events", ev.Equal(ev.Normalise(rec.Events), want))
	h.Assert("contract", ev.Contract(rec.Events) == "")
}
