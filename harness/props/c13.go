package props

import (
	"math"

	structform "github.com/elastic/go-structform"
	"github.com/elastic/go-structform/gotype"

	"verif/harness/gen"
	"verif/harness/rt"
)

// emitRef is emit with strings and keys delivered by reference from a transient
// buffer that is overwritten as soon as the call returns (what parsers do).
func emitRef(h *rt.H, n *gen.Node, v structform.ExtVisitor, known, byRef bool) error {
	str := func(s []byte, key bool) error {
		if !byRef {
			if key {
				return v.OnKey(string(s))
			}
			return v.OnString(string(s))
		}
		buf := cloneBytes(s)
		var err error
		if key {
			err = v.OnKeyRef(buf)
		} else {
			err = v.OnStringRef(buf)
		}
		for i := range buf {
			buf[i] = 0xEE // the producer reuses its buffer
		}
		return err
	}
	switch n.K {
	case gen.KStr:
		return str(n.Str, false)
	case gen.KArr:
		l := -1
		if known {
			l = len(n.Kids)
		}
		if err := v.OnArrayStart(l, structform.AnyType); err != nil {
			return err
		}
		for _, k := range n.Kids {
			if err := emitRef(h, k, v, known, byRef); err != nil {
				return err
			}
		}
		return v.OnArrayFinished()
	case gen.KObj:
		l := -1
		if known {
			l = len(n.Kids)
		}
		if err := v.OnObjectStart(l, structform.AnyType); err != nil {
			return err
		}
		for i, k := range n.Kids {
			if err := str(n.Keys[i], true); err != nil {
				return err
			}
			if err := emitRef(h, k, v, known, byRef); err != nil {
				return err
			}
		}
		return v.OnObjectFinished()
	}
	return emit(n, v, known)
}

// numEq: got is a Go number (any integer kind, or float for float nodes) equal to the node.
func numEq(got interface{}, n *gen.Node) bool {
	// integers: any integer type (the width is representation), numerically equal
	var sv int64
	var uv uint64
	signed, unsigned := false, false
	switch x := got.(type) {
	case int8:
		sv, signed = int64(x), true
	case int16:
		sv, signed = int64(x), true
	case int32:
		sv, signed = int64(x), true
	case int64:
		sv, signed = x, true
	case int:
		sv, signed = int64(x), true
	case uint8:
		uv, unsigned = uint64(x), true
	case uint16:
		uv, unsigned = uint64(x), true
	case uint32:
		uv, unsigned = uint64(x), true
	case uint64:
		uv, unsigned = x, true
	case uint:
		uv, unsigned = uint64(x), true
	case float64:
		return n.K == gen.KF64 && math.Float64bits(x) == n.Bits
	case float32:
		return n.K == gen.KF32 && uint64(math.Float32bits(x)) == n.Bits
	}
	switch {
	case signed && n.K == gen.KInt:
		return uint64(sv) == n.Bits
	case signed && n.K == gen.KUint:
		return sv >= 0 && uint64(sv) == n.Bits
	case unsigned && n.K == gen.KUint:
		return uv == n.Bits
	case unsigned && n.K == gen.KInt:
		return int64(n.Bits) >= 0 && uv == n.Bits
	}
	return false
}

// matches: the generic Go data got describes the value n (guided by n, so no
// iteration over Go maps is needed). Keys within an object are assumed distinct.
func matches(got interface{}, n *gen.Node) bool {
	switch n.K {
	case gen.KNil:
		return got == nil
	case gen.KBool:
		b, ok := got.(bool)
		return ok && rt.IteBool(b, n.Bits == 1, n.Bits == 0)
	case gen.KInt, gen.KUint, gen.KF32, gen.KF64:
		return numEq(got, n)
	case gen.KStr:
		s, ok := got.(string)
		return ok && rt.BytesEq([]byte(s), n.Str)
	case gen.KArr:
		a, ok := got.([]interface{})
		if !ok || len(a) != len(n.Kids) {
			return false
		}
		res := true
		for i, k := range n.Kids {
			res = rt.And(res, matches(a[i], k))
		}
		return res
	case gen.KObj:
		m, ok := got.(map[string]interface{})
		if !ok || len(m) != len(n.Kids) {
			return false
		}
		res := true
		for i, k := range n.Kids {
			v, present := m[string(n.Keys[i])]
			if !present {
				return false
			}
			res = rt.And(res, matches(v, k))
		}
		return res
	}
	return false
}

func distinctKeys(h *rt.H, n *gen.Node) {
	for i := range n.Keys {
		for j := 0; j < i; j++ {
			if len(n.Keys[i]) == len(n.Keys[j]) {
				h.Assume(!rt.BytesEq(n.Keys[i], n.Keys[j]))
			}
		}
	}
	for _, k := range n.Kids {
		distinctKeys(h, k)
	}
}

// UNFOLD_Generic (C13a): a generated event stream, strings/keys by value or by
// reference (buffers scribbled after each call), announced or unknown lengths, into
// an empty interface: the target is exactly the stream's value as generic Go data.
func UNFOLD_Generic(h *rt.H) {
	v := gen.Value(h, genCfg(h))
	distinctKeys(h, v)
	known := h.Choose("known", 0, 1) == 1
	byRef := h.Choose("byRef", 0, 1) == 1
	var to interface{}
	u, err := gotype.NewUnfolder(&to)
	h.Assert("unfolder-created", err == nil)
	err = emitRef(h, v, structform.EnsureExtVisitor(u), known, byRef)
	h.Assert("no-error", err == nil)
	h.Assert("value", matches(to, v))
}

// callScalar calls scalar event kind k (0..14: int8,int16,int32,int64,int,byte,uint8,
// uint16,uint32,uint64,uint,float32,float64,bool,nil) with payload bits x.
// Returns the mathematical value as (neg, mag) for integers, or the float64 value.
func callScalar(k int, x uint64, v structform.Visitor) error {
	switch k {
	case 0:
		return v.OnInt8(int8(x))
	case 1:
		return v.OnInt16(int16(x))
	case 2:
		return v.OnInt32(int32(x))
	case 3:
		return v.OnInt64(int64(x))
	case 4:
		return v.OnInt(int(x))
	case 5:
		return v.OnByte(byte(x))
	case 6:
		return v.OnUint8(uint8(x))
	case 7:
		return v.OnUint16(uint16(x))
	case 8:
		return v.OnUint32(uint32(x))
	case 9:
		return v.OnUint64(x)
	case 10:
		return v.OnUint(uint(x))
	case 11:
		return v.OnFloat32(math.Float32frombits(uint32(x)))
	case 12:
		return v.OnFloat64(math.Float64frombits(x))
	}
	return nil
}

// intValueOf: the integer the event of kind k with payload bits x carries, as int64
// together with "is an unsigned value above MaxInt64" (then lo is its uint64 bits).
func intValueOf(k int, x uint64) (v int64, big bool) {
	switch k {
	case 0:
		return int64(int8(x)), false
	case 1:
		return int64(int16(x)), false
	case 2:
		return int64(int32(x)), false
	case 3, 4:
		return int64(x), false
	case 5, 6:
		return int64(uint8(x)), false
	case 7:
		return int64(uint16(x)), false
	case 8:
		return int64(uint32(x)), false
	}
	return int64(x), int64(x) < 0
}

// UNFOLD_Conv (C13b): every integer event kind x every integer target kind with a
// fully symbolic payload: whenever the value fits the target, the target holds
// exactly that value and no error is returned.
func UNFOLD_Conv(h *rt.H) {
	k := h.Choose("event", 0, 10)
	t := h.Choose("target", 0, 9)
	x := h.U64("x")
	val, big := intValueOf(k, x)
	var (
		i8  int8
		i16 int16
		i32 int32
		i64 int64
		i   int
		u8  uint8
		u16 uint16
		u32 uint32
		u64 uint64
		u   uint
	)
	targets := []interface{}{&i8, &i16, &i32, &i64, &i, &u8, &u16, &u32, &u64, &u}
	// "fits": the mathematical value lies in the target's range
	var fits bool
	switch t {
	case 0:
		fits = !big && val >= math.MinInt8 && val <= math.MaxInt8
	case 1:
		fits = !big && val >= math.MinInt16 && val <= math.MaxInt16
	case 2:
		fits = !big && val >= math.MinInt32 && val <= math.MaxInt32
	case 3, 4:
		fits = !big
	case 5:
		fits = !big && val >= 0 && val <= math.MaxUint8
	case 6:
		fits = !big && val >= 0 && val <= math.MaxUint16
	case 7:
		fits = !big && val >= 0 && val <= math.MaxUint32
	case 8, 9:
		fits = big || val >= 0
	}
	h.Assume(fits)
	u2, err := gotype.NewUnfolder(targets[t])
	h.Assert("unfolder-created", err == nil)
	err = callScalar(k, x, u2)
	h.Assert("no-error", err == nil)
	var got uint64
	switch t {
	case 0:
		got = uint64(int64(i8))
	case 1:
		got = uint64(int64(i16))
	case 2:
		got = uint64(int64(i32))
	case 3:
		got = uint64(i64)
	case 4:
		got = uint64(int64(i))
	case 5:
		got = uint64(u8)
	case 6:
		got = uint64(u16)
	case 7:
		got = uint64(u32)
	case 8:
		got = u64
	case 9:
		got = uint64(u)
	}
	h.Assert("value", got == uint64(val))
}

// UNFOLD_Typed (C13): arrays and objects of integers into typed slice / map targets
// and into []interface{} / map[string]interface{}.
func UNFOLD_Typed(h *rt.H) {
	n := h.Choose("n", 0, 2)
	obj := h.Choose("obj", 0, 1) == 1
	t := h.Choose("target", 0, 3) // 0: []int / map[string]int; 1: []uint8 / map[string]uint8; 2: []interface{} / map[string]interface{}; 3: []int64/map[string]int64
	known := h.Choose("known", 0, 1) == 1
	byRef := h.Choose("byRef", 0, 1) == 1
	vals := make([]int8, n)
	for i := range vals {
		vals[i] = int8(h.U8("v"))
		if t == 1 {
			h.Assume(vals[i] >= 0)
		}
	}
	var (
		si  []int
		su  []uint8
		sa  []interface{}
		s64 []int64
		mi  map[string]int
		mu  map[string]uint8
		ma  map[string]interface{}
		m64 map[string]int64
	)
	var target interface{}
	switch {
	case !obj && t == 0:
		target = &si
	case !obj && t == 1:
		target = &su
	case !obj && t == 2:
		target = &sa
	case !obj:
		target = &s64
	case t == 0:
		target = &mi
	case t == 1:
		target = &mu
	case t == 2:
		target = &ma
	default:
		target = &m64
	}
	u, err := gotype.NewUnfolder(target)
	h.Assert("unfolder-created", err == nil)
	ext := structform.EnsureExtVisitor(u)
	l := -1
	if known {
		l = n
	}
	keys := []string{"a", "b"}
	if obj {
		err = ext.OnObjectStart(l, structform.AnyType)
	} else {
		err = ext.OnArrayStart(l, structform.AnyType)
	}
	for i := 0; i < n && err == nil; i++ {
		if obj {
			if byRef {
				buf := []byte(keys[i])
				err = ext.OnKeyRef(buf)
				buf[0] = 0xEE
			} else {
				err = ext.OnKey(keys[i])
			}
		}
		if err == nil {
			err = ext.OnInt8(vals[i])
		}
	}
	if err == nil {
		if obj {
			err = ext.OnObjectFinished()
		} else {
			err = ext.OnArrayFinished()
		}
	}
	h.Assert("no-error", err == nil)
	ok := true
	for i := 0; i < n; i++ {
		want := int64(vals[i])
		switch {
		case !obj && t == 0:
			ok = rt.And(ok, len(si) == n && int64(si[i]) == want)
		case !obj && t == 1:
			ok = rt.And(ok, len(su) == n && int64(su[i]) == want)
		case !obj && t == 2:
			x, is := sa[i].(int8)
			ok = rt.And(ok, len(sa) == n && is && int64(x) == want)
		case !obj:
			ok = rt.And(ok, len(s64) == n && s64[i] == want)
		case t == 0:
			x, has := mi[keys[i]]
			ok = rt.And(ok, len(mi) == n && has && int64(x) == want)
		case t == 1:
			x, has := mu[keys[i]]
			ok = rt.And(ok, len(mu) == n && has && int64(x) == want)
		case t == 2:
			a, has := ma[keys[i]]
			x, is := a.(int8)
			ok = rt.And(ok, len(ma) == n && has && is && int64(x) == want)
		default:
			x, has := m64[keys[i]]
			ok = rt.And(ok, len(m64) == n && has && x == want)
		}
	}
	h.Assert("value", ok)
}

type us1 struct {
	A int
	B string
	C uint8 `struct:"cc"`
	D []int8
	E map[string]int
	F *int16
}

// UNFOLD_S1 (C13c): a struct target with symbolic pre-filled fields; the stream is
// an object that mentions a symbolically chosen subset of the fields and, at a
// symbolically chosen position, one extra member (no matching field) whose value is
// any generated value (nested containers, strings by value or by reference).
// Mentioned fields are assigned, the others untouched, the extra member is skipped.
func UNFOLD_S1(h *rt.H) {
	preA, preC := int(h.U64("preA")), h.U8("preC")
	to := us1{A: preA, B: "old", C: preC}
	setA := h.Choose("setA", 0, 1) == 1
	setB := h.Choose("setB", 0, 1) == 1
	setC := h.Choose("setC", 0, 1) == 1
	setD := h.Choose("setD", 0, 1) == 1
	setE := h.Choose("setE", 0, 1) == 1
	setF := h.Choose("setF", 0, 1) == 1
	extraPos := h.Choose("extraPos", -1, 2) // -1: no extra member
	byRef := h.Choose("byRef", 0, 1) == 1
	known := h.Choose("known", 0, 1) == 1
	var extra *gen.Node
	if extraPos >= 0 {
		extra = gen.Value(h, genCfg(h))
	}
	newA, newC, newD, newE, newF := int8(h.U8("newA")), h.U8("newC"), int8(h.U8("newD")), int8(h.U8("newE")), int16(h.U16("newF"))
	newB := h.Bytes("newB", 1)

	u, err := gotype.NewUnfolder(&to)
	h.Assert("unfolder-created", err == nil)
	v := structform.EnsureExtVisitor(u)
	key := func(k string) error {
		if !byRef {
			return v.OnKey(k)
		}
		buf := []byte(k)
		e := v.OnKeyRef(buf)
		for i := range buf {
			buf[i] = 0xEE
		}
		return e
	}
	members := 0
	step := func(e error) {
		if err == nil {
			err = e
		}
	}
	emitExtra := func(pos int) {
		if extraPos == pos && err == nil {
			step(key("zz"))
			if err == nil {
				step(emitRef(h, extra, v, known, byRef))
			}
		}
	}
	step(v.OnObjectStart(-1, structform.AnyType))
	emitExtra(0)
	if setA {
		step(key("a"))
		step(v.OnInt8(newA))
		members++
	}
	if setB {
		step(key("b"))
		if byRef {
			buf := cloneBytes(newB)
			step(v.OnStringRef(buf))
			buf[0] = 0xEE
		} else {
			step(v.OnString(string(newB)))
		}
	}
	emitExtra(1)
	if setC {
		step(key("cc"))
		step(v.OnUint8(newC))
	}
	if setD {
		step(key("d"))
		step(v.OnArrayStart(1, structform.AnyType))
		step(v.OnInt8(newD))
		step(v.OnArrayFinished())
	}
	if setE {
		step(key("e"))
		step(v.OnObjectStart(1, structform.AnyType))
		step(key("k"))
		step(v.OnInt8(newE))
		step(v.OnObjectFinished())
	}
	if setF {
		step(key("f"))
		step(v.OnInt16(newF))
	}
	emitExtra(2)
	step(v.OnObjectFinished())
	if extraPos >= 0 {
		h.Tag("unfold.extra-member")
	}
	h.Assert("no-error", err == nil)
	ok := true
	if setA {
		ok = rt.And(ok, to.A == int(newA))
	} else {
		ok = rt.And(ok, to.A == preA)
	}
	if setB {
		ok = rt.And(ok, rt.BytesEq([]byte(to.B), newB))
	} else {
		ok = rt.And(ok, to.B == "old")
	}
	if setC {
		ok = rt.And(ok, to.C == newC)
	} else {
		ok = rt.And(ok, to.C == preC)
	}
	if setD {
		ok = rt.And(ok, len(to.D) == 1 && to.D[0] == newD)
	} else {
		ok = rt.And(ok, to.D == nil)
	}
	if setE {
		x, has := to.E["k"]
		ok = rt.And(ok, len(to.E) == 1 && has && x == int(newE))
	} else {
		ok = rt.And(ok, to.E == nil)
	}
	if setF {
		ok = rt.And(ok, to.F != nil && *to.F == newF)
	} else {
		ok = rt.And(ok, to.F == nil)
	}
	h.Assert("assigned-and-untouched", ok)
}

type preS struct{ V int }

// UNFOLD_Prepopulated (C13): a target that already holds more elements than the
// stream delivers (a reused target): after unfolding it holds exactly the stream's
// value, whether the producer announces the length or not. Slices of structs
// (reflection based slice unfolder) and of integers.
func UNFOLD_Prepopulated(h *rt.H) {
	known := h.Choose("known", 0, 1) == 1
	n := h.Choose("n", 0, 2)
	structs := h.Choose("structs", 0, 1) == 1
	vals := make([]int8, n)
	for i := range vals {
		vals[i] = int8(h.U8("v"))
	}
	ts := []preS{{V: 91}, {V: 92}, {V: 93}}
	ti := []int{91, 92, 93}
	var target interface{} = &ti
	if structs {
		target = &ts
	}
	u, err := gotype.NewUnfolder(target)
	h.Assert("unfolder-created", err == nil)
	v := structform.EnsureExtVisitor(u)
	l := -1
	if known {
		l = n
	}
	err = v.OnArrayStart(l, structform.AnyType)
	for i := 0; i < n && err == nil; i++ {
		if structs {
			err = v.OnObjectStart(1, structform.AnyType)
			if err == nil {
				err = v.OnKey("v")
			}
			if err == nil {
				err = v.OnInt8(vals[i])
			}
			if err == nil {
				err = v.OnObjectFinished()
			}
		} else {
			err = v.OnInt8(vals[i])
		}
	}
	if err == nil {
		err = v.OnArrayFinished()
	}
	h.Assert("no-error", err == nil)
	ok := true
	if structs {
		ok = len(ts) == n
		for i := 0; i < n && ok; i++ {
			ok = rt.And(ok, ts[i].V == int(vals[i]))
		}
	} else {
		ok = len(ti) == n
		for i := 0; i < n && ok; i++ {
			ok = rt.And(ok, ti[i] == int(vals[i]))
		}
	}
	h.Assert("exactly-the-stream", ok)
}

type nmStruct struct {
	M map[string][]int8
	N int8
}

// UNFOLD_NestedMaps (C13): maps handled by the reflection based map unfolder nested
// in one another and in structs: every element lands under its own key.
func UNFOLD_NestedMaps(h *rt.H) {
	which := h.Choose("target", 0, 2)
	byRef := h.Choose("byRef", 0, 1) == 1
	x, y := int8(h.U8("x")), int8(h.U8("y"))
	var (
		mm map[string]map[string][]int8
		ms map[string]nmStruct
		sm nmStruct
	)
	target := []interface{}{&mm, &ms, &sm}[which]
	u, err := gotype.NewUnfolder(target)
	h.Assert("unfolder-created", err == nil)
	v := structform.EnsureExtVisitor(u)
	key := func(k string) error {
		if !byRef {
			return v.OnKey(k)
		}
		buf := []byte(k)
		e := v.OnKeyRef(buf)
		for i := range buf {
			buf[i] = 0xEE
		}
		return e
	}
	step := func(e error) {
		if err == nil {
			err = e
		}
	}
	arr := func(val int8) {
		step(v.OnArrayStart(1, structform.AnyType))
		step(v.OnInt8(val))
		step(v.OnArrayFinished())
	}
	switch which {
	case 0: // {"o1":{"i1":[x],"i2":[y]},"o2":{"i3":[y]}}
		step(v.OnObjectStart(2, structform.AnyType))
		step(key("o1"))
		step(v.OnObjectStart(2, structform.AnyType))
		step(key("i1"))
		arr(x)
		step(key("i2"))
		arr(y)
		step(v.OnObjectFinished())
		step(key("o2"))
		step(v.OnObjectStart(1, structform.AnyType))
		step(key("i3"))
		arr(y)
		step(v.OnObjectFinished())
		step(v.OnObjectFinished())
		h.Assert("no-error", err == nil)
		ok := len(mm) == 2 && len(mm["o1"]) == 2 && len(mm["o2"]) == 1 &&
			len(mm["o1"]["i1"]) == 1 && len(mm["o1"]["i2"]) == 1 && len(mm["o2"]["i3"]) == 1
		if ok {
			ok = rt.And(mm["o1"]["i1"][0] == x, rt.And(mm["o1"]["i2"][0] == y, mm["o2"]["i3"][0] == y))
		}
		h.Assert("value", ok)
	case 1: // {"a":{"m":{"k":[x]},"n":y},"b":{"n":x}}
		step(v.OnObjectStart(-1, structform.AnyType))
		step(key("a"))
		step(v.OnObjectStart(-1, structform.AnyType))
		step(key("m"))
		step(v.OnObjectStart(-1, structform.AnyType))
		step(key("k"))
		arr(x)
		step(v.OnObjectFinished())
		step(key("n"))
		step(v.OnInt8(y))
		step(v.OnObjectFinished())
		step(key("b"))
		step(v.OnObjectStart(-1, structform.AnyType))
		step(key("n"))
		step(v.OnInt8(x))
		step(v.OnObjectFinished())
		step(v.OnObjectFinished())
		h.Assert("no-error", err == nil)
		ok := len(ms) == 2 && len(ms["a"].M) == 1 && len(ms["a"].M["k"]) == 1 && len(ms["b"].M) == 0
		if ok {
			ok = rt.And(ms["a"].M["k"][0] == x, rt.And(ms["a"].N == y, ms["b"].N == x))
		}
		h.Assert("value", ok)
	case 2: // {"m":{"p":[x],"q":[y]},"n":y}
		step(v.OnObjectStart(-1, structform.AnyType))
		step(key("m"))
		step(v.OnObjectStart(-1, structform.AnyType))
		step(key("p"))
		arr(x)
		step(key("q"))
		arr(y)
		step(v.OnObjectFinished())
		step(key("n"))
		step(v.OnInt8(y))
		step(v.OnObjectFinished())
		h.Assert("no-error", err == nil)
		ok := len(sm.M) == 2 && len(sm.M["p"]) == 1 && len(sm.M["q"]) == 1
		if ok {
			ok = rt.And(sm.M["p"][0] == x, rt.And(sm.M["q"][0] == y, sm.N == y))
		}
		h.Assert("value", ok)
	}
}

type inl2 struct{ C, D int16 }
type inl1 struct {
	B  int16
	I2 inl2 `struct:",inline"`
}
type inlOuter struct {
	A  int64
	I1 inl1  `struct:",inline"`
	G1 int16 `struct:"-"`
	G2 int16 `struct:"-"`
}

// UNFOLD_InlineNested (C13, C14): a struct target whose inlined struct (not at
// offset 0) itself inlines a struct: every member lands in its own field and
// nothing else is written (guard fields behind the inlined part stay untouched).
func UNFOLD_InlineNested(h *rt.H) {
	a, b, c, d := int8(h.U8("a")), int8(h.U8("b")), int8(h.U8("c")), int8(h.U8("d"))
	// every field starts out different from what the stream assigns, so that a field
	// that is not written (or written elsewhere) shows for every input
	to := inlOuter{A: int64(a) + 1, I1: inl1{B: int16(b) + 1, I2: inl2{C: int16(c) + 1, D: int16(d) + 1}}, G1: 771, G2: 772}
	u, err := gotype.NewUnfolder(&to)
	h.Assert("unfolder-created", err == nil)
	if err != nil {
		return
	}
	v := structform.EnsureExtVisitor(u)
	step := func(e error) {
		if err == nil {
			err = e
		}
	}
	step(v.OnObjectStart(-1, structform.AnyType))
	step(v.OnKey("a"))
	step(v.OnInt8(a))
	step(v.OnKey("b"))
	step(v.OnInt8(b))
	step(v.OnKey("c"))
	step(v.OnInt8(c))
	step(v.OnKey("d"))
	step(v.OnInt8(d))
	step(v.OnObjectFinished())
	h.Assert("no-error", err == nil)
	ok := rt.And(to.A == int64(a), rt.And(to.I1.B == int16(b), rt.And(to.I1.I2.C == int16(c), to.I1.I2.D == int16(d))))
	h.Assert("assigned", ok)
	h.Assert("nothing-else-written", to.G1 == 771 && to.G2 == 772)
}
