package props

import (
	structform "github.com/elastic/go-structform"

	"verif/harness/ev"
	"verif/harness/gen"
	"verif/harness/rt"
)

// writeFail (C16a): the io.Writer behind an encoder fails at its k-th write and keeps
// failing; the event sequence (basic events of a generated value, or one extended
// event in a container) must report an error no later than its last event. The
// sequence stops at the first error it sees, so a swallowed error shows as nil.
func writeFail(h *rt.H, c *codec) {
	useExt := h.Choose("useExt", 0, 1) == 1
	var v *gen.Node
	var ext, n int
	if useExt {
		ext = h.Choose("ext", 0, numExtEvents-1)
		n = h.Choose("n", 0, h.Param("N", 2))
	} else {
		cfg := genCfg(h)
		cfg.ASCII, cfg.Small = true, true
		v = gen.Value(h, cfg)
	}
	known := h.Choose("known", 0, 1) == 1
	run := func(out *sink, tag string) error {
		enc := structform.EnsureExtVisitor(c.newVisitor(out))
		if !useExt {
			return emit(v, enc, known)
		}
		// the extended event alone at top level: it is the last event of the sequence
		o := extOptsFor(c)
		o.maxUint, o.maxAbs = 9, 9 // the number encoding is not the subject here
		_, err := extEvent(h, ext, n, enc, o)
		return err
	}
	// dry run: count the writes of this event sequence
	dry := &sink{}
	err := run(dry, "dry")
	h.Assert("dry-run-encodes", err == nil)
	if dry.Writes == 0 {
		return
	}
	k := h.Choose("failAt", 1, dry.Writes)
	out := &sink{FailAt: k}
	err = run(out, "fail")
	h.Assert("error-reported", err != nil)
	h.ObserveBool("err", err != nil)
}

func WFAIL_cborl(h *rt.H)  { writeFail(h, cborCodec) }
func WFAIL_ubjson(h *rt.H) { writeFail(h, ubjsonCodec) }
func WFAIL_json(h *rt.H)   { writeFail(h, jsonCodec) }

// visitorFailParse (C16b): a visitor that fails at its k-th event with a
// distinguished error: the parser returns that very error and delivers no further
// event of the document.
func visitorFailParse(h *rt.H, c *codec) {
	doc := shapedDoc(h, c)
	var dry ev.Recorder
	err := c.parse(cloneBytes(doc), &dry)
	h.Assert("dry-run-accepted", err == nil)
	if len(dry.Events) == 0 {
		return
	}
	k := h.Choose("failAt", 1, len(dry.Events))
	rec := ev.Recorder{FailAt: k}
	err = c.parse(cloneBytes(doc), &rec)
	h.Assert("error-returned", err == ev.ErrInjected)
	h.Assert("no-event-after", rec.After == 0)
	// chunked, through Write
	cutAt := h.Choose("cut", 0, len(doc)-1)
	rec2 := ev.Recorder{FailAt: k}
	p := c.newParser(&rec2)
	_, err2 := p.Write(cloneBytes(doc[:cutAt]))
	if err2 == nil {
		_, err2 = p.Write(cloneBytes(doc[cutAt:]))
	}
	if len(rec2.Events) >= k {
		h.Assert("error-returned:Write", err2 == ev.ErrInjected)
	}
	h.Assert("no-event-after:Write", rec2.After == 0)
}

func VFAIL_cborl(h *rt.H)  { visitorFailParse(h, cborCodec) }
func VFAIL_ubjson(h *rt.H) { visitorFailParse(h, ubjsonCodec) }
func VFAIL_json(h *rt.H)   { visitorFailParse(h, jsonCodec) }

// VFAIL_Adapt (C16b): the extended-event adapters return the visitor's error and stop.
func VFAIL_Adapt(h *rt.H) {
	ext := h.Choose("ext", 0, numExtEvents-1)
	n := h.Choose("n", 0, h.Param("N", 2))
	var dry ev.Recorder
	_, err := extEvent(h, ext, n, structform.EnsureExtVisitor(&dry), extOpts{maxUint: ^uint64(0)})
	h.Assert("dry-run", err == nil)
	k := h.Choose("failAt", 1, len(dry.Events))
	rec := ev.Recorder{FailAt: k}
	_, err = extEvent(h, ext, n, structform.EnsureExtVisitor(&rec), extOpts{maxUint: ^uint64(0)})
	h.Assert("error-returned", err == ev.ErrInjected)
	h.Assert("no-event-after", rec.After == 0)
}

// VFAIL_JSONNumbers (C16b): a JSON document with numbers of every syntax (integer,
// negative, fraction, exponent, beyond int64) at top level of an array, as member
// values and nested: the visitor fails at every event k (one-shot, string, reader,
// two-chunk Write): its error comes back and nothing follows.
func VFAIL_JSONNumbers(h *rt.H) {
	doc := []byte(`[1.5,{"a":2e3,"b":-7},[-0.25,18446744073709551615,1E-2],12]`)
	var dry ev.Recorder
	h.Assert("dry-run-accepted", jsonCodec.parse(cloneBytes(doc), &dry) == nil)
	k := h.Choose("failAt", 1, len(dry.Events))
	rec := ev.Recorder{FailAt: k}
	var err error
	switch h.Choose("entry", 0, 2) {
	case 0:
		err = jsonCodec.parse(cloneBytes(doc), &rec)
	case 1:
		err = jsonCodec.parseString(string(doc), &rec)
	case 2:
		cuts := make([]bool, len(doc))
		cuts[h.Choose("cut", 0, len(doc)-2)] = true
		_, err = jsonCodec.parseReader(newChunkReader(h, doc, cuts), &rec)
	}
	h.Assert("error-returned", err == ev.ErrInjected)
	h.Assert("no-event-after", rec.After == 0)
}
