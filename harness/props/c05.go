package props

import (
	"verif/harness/ev"
	"verif/harness/ref"
	"verif/harness/rt"

	"github.com/elastic/go-structform/cborl"
)

func cloneBytes(b []byte) []byte { return append([]byte(nil), b...) }

// checkCBOR runs the library parser on in and compares with the reference decoder.
func checkCBOR(h *rt.H, in []byte) {
	want, class, _ := ref.DecodeCBOR(h, in)
	h.Tag("class." + ref.ClassNames[class])
	var rec ev.Recorder
	err := cborl.Parse(cloneBytes(in), &rec)
	got := ev.Normalise(rec.Events)
	switch class {
	case ref.OK:
		h.Assert("accepted", err == nil)
		h.Assert("value", ev.Equal(got, want))
	case ref.Unsupported:
		h.Assert("refused", err != nil)
		// nothing may be reported for the refused item: the events are a prefix of what
		// the reference decoded before it
		h.Assert("no-other-value", len(got) <= len(want) && ev.Equal(got, want[:len(got)]))
	case ref.Malformed:
		h.Assert("rejected", err != nil)
	case ref.Truncated:
		// the verdict for truncated input belongs to C03; here only: no wrong value in
		// what both report (the library may stream the available part of a byte string,
		// the reference reports an item only when it is complete)
		n := len(got)
		if len(want) < n {
			n = len(want)
		}
		h.Assert("no-other-value", ev.Equal(got[:n], want[:n]))
	}
	h.ObserveBool("err", err != nil)
	h.ObserveBytes("events", ev.Serialize(rec.Events))
}

// C05_Bytes: every byte string of length N.
func C05_Bytes(h *rt.H) {
	n := h.Param("N", 2)
	checkCBOR(h, h.Bytes("in", n))
}

// C05_Head: one symbolic initial byte with additional information 24..27, the 1, 2,
// 4 or 8 symbolic argument bytes it announces, and one symbolic trailing byte:
// every major type x every argument width x every argument value (lengths and
// counts up to 2^64-1, the whole negative range).
func C05_Head(h *rt.H) {
	ai := h.Choose("ai", 24, 27)
	w := 1 << uint(ai-24)
	in := h.Bytes("in", 1+w+1)
	h.Assume(in[0]&31 == byte(ai))
	checkCBOR(h, in)
}
