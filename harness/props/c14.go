package props

import (
	structform "github.com/elastic/go-structform"
	"github.com/elastic/go-structform/gotype"

	"verif/harness/gen"
	"verif/harness/rt"
)

// emitHostile is emit with the announced length of every container replaced by one
// fully symbolic value (>= -1): an announced length is a hint the stream need not back.
// stopAfter: abandon the document after that many events (-1: never).
type hostileEmitter struct {
	h         *rt.H
	v         structform.ExtVisitor
	announced int
	events    int
	stopAfter int
	stopped   bool
}

func (e *hostileEmitter) step() bool {
	if e.stopAfter >= 0 && e.events >= e.stopAfter {
		e.stopped = true
		return false
	}
	e.events++
	return true
}

func (e *hostileEmitter) emit(n *gen.Node) error {
	if !e.step() {
		return nil
	}
	switch n.K {
	case gen.KArr:
		if err := e.v.OnArrayStart(e.announced, structform.AnyType); err != nil {
			return err
		}
		for _, k := range n.Kids {
			if err := e.emit(k); err != nil || e.stopped {
				return err
			}
		}
		if !e.step() {
			return nil
		}
		return e.v.OnArrayFinished()
	case gen.KObj:
		if err := e.v.OnObjectStart(e.announced, structform.AnyType); err != nil {
			return err
		}
		for i, k := range n.Kids {
			if !e.step() {
				return nil
			}
			if err := e.v.OnKey(string(n.Keys[i])); err != nil {
				return err
			}
			if err := e.emit(k); err != nil || e.stopped {
				return err
			}
		}
		if !e.step() {
			return nil
		}
		return e.v.OnObjectFinished()
	}
	return emit(n, e.v, false)
}

type mmStruct struct {
	A int
	B string
	C []int8
}

// newTarget returns a pointer to a fresh zero value of target kind t.
func newTarget(t int) interface{} {
	switch t {
	case 0:
		return new(interface{})
	case 1:
		return new(int)
	case 2:
		return new(string)
	case 3:
		return new(bool)
	case 4:
		return new([]int)
	case 5:
		return new(map[string]int)
	case 6:
		return new([]interface{})
	case 7:
		return new(map[string]interface{})
	case 8:
		return new([]string)
	case 9:
		return new(float64)
	case 10:
		return new(mmStruct)
	case 11:
		return new([]mmStruct)
	case 12:
		return new(map[string]mmStruct)
	}
	return new(uint8)
}

const numTargets = 14

// probeResult unfolds a small fixed probe document ({"A":5,"B":"x"} or [1,2] or 7,
// chosen to fit most targets) and returns (error seen, a digest of the target).
func probeDoc(t int, v structform.ExtVisitor) error {
	switch t {
	case 0, 7, 10, 12:
		if err := v.OnObjectStart(1, structform.AnyType); err != nil {
			return err
		}
		if t == 12 {
			if err := v.OnKey("k"); err != nil {
				return err
			}
			if err := v.OnObjectStart(1, structform.AnyType); err != nil {
				return err
			}
		}
		if err := v.OnKey("A"); err != nil {
			return err
		}
		if err := v.OnInt8(5); err != nil {
			return err
		}
		if t == 12 {
			if err := v.OnObjectFinished(); err != nil {
				return err
			}
		}
		return v.OnObjectFinished()
	case 5:
		if err := v.OnObjectStart(1, structform.AnyType); err != nil {
			return err
		}
		if err := v.OnKey("A"); err != nil {
			return err
		}
		if err := v.OnInt8(5); err != nil {
			return err
		}
		return v.OnObjectFinished()
	case 4, 6:
		if err := v.OnArrayStart(2, structform.AnyType); err != nil {
			return err
		}
		if err := v.OnInt8(1); err != nil {
			return err
		}
		if err := v.OnInt8(2); err != nil {
			return err
		}
		return v.OnArrayFinished()
	case 8:
		if err := v.OnArrayStart(1, structform.AnyType); err != nil {
			return err
		}
		if err := v.OnString("s"); err != nil {
			return err
		}
		return v.OnArrayFinished()
	case 11:
		if err := v.OnArrayStart(1, structform.AnyType); err != nil {
			return err
		}
		if err := v.OnObjectStart(1, structform.AnyType); err != nil {
			return err
		}
		if err := v.OnKey("A"); err != nil {
			return err
		}
		if err := v.OnInt8(5); err != nil {
			return err
		}
		if err := v.OnObjectFinished(); err != nil {
			return err
		}
		return v.OnArrayFinished()
	case 2:
		return v.OnString("s")
	case 3:
		return v.OnBool(true)
	}
	return v.OnInt8(7)
}

// digest: a small observable summary of what the probe put into the target.
func digest(t int, to interface{}) uint64 {
	switch x := to.(type) {
	case *interface{}:
		if m, ok := (*x).(map[string]interface{}); ok {
			if a, ok := m["A"].(int8); ok {
				return 100 + uint64(a)
			}
			return 50 + uint64(len(m))
		}
		return 1
	case *int:
		return uint64(*x)
	case *uint8:
		return uint64(*x)
	case *string:
		return uint64(len(*x))
	case *bool:
		return rt.IteU64(*x, 1, 0)
	case *float64:
		if *x == 7 {
			return 7
		}
		return 0
	case *[]int:
		if len(*x) == 2 {
			return uint64((*x)[0]*10 + (*x)[1])
		}
		return 1000 + uint64(len(*x))
	case *map[string]int:
		return uint64(len(*x)*100 + (*x)["A"])
	case *[]interface{}:
		return uint64(len(*x))
	case *map[string]interface{}:
		return uint64(len(*x))
	case *[]string:
		return uint64(len(*x))
	case *mmStruct:
		return uint64(x.A*10 + len(x.B))
	case *[]mmStruct:
		if len(*x) == 1 {
			return uint64((*x)[0].A)
		}
		return 1000 + uint64(len(*x))
	case *map[string]mmStruct:
		return uint64(len(*x)*100 + (*x)["k"].A)
	}
	return 0
}

// UNFOLD_Mismatch (C14): any generated stream (announced lengths hostile) into any
// target kind: no panic, no invalid reinterpretation, no allocation driven by the
// announced length (engine monitors); the document may be abandoned at any event;
// after Reset+SetTarget the unfolder handles a probe document like a fresh one.
func UNFOLD_Mismatch(h *rt.H) {
	cfg := genCfg(h)
	cfg.Small = true
	v := gen.Value(h, cfg)
	t := h.Choose("target", 0, numTargets-1)
	l := int(h.U64("announced"))
	// -1 (unknown), small honest-looking lengths, or enormous ones; the range in
	// between takes the same code path as the enormous ones (clamped pre-allocation)
	// and would only multiply concrete slice lengths in the engine
	h.Assume(l >= -1 && (l <= 3 || l >= 1<<20))
	stopAfter := h.Choose("abandonAfter", -1, h.Param("ABANDON", 3))
	to := newTarget(t)
	u, err := gotype.NewUnfolder(to)
	h.Assert("unfolder-created", err == nil)
	em := &hostileEmitter{h: h, v: structform.EnsureExtVisitor(u), announced: l, stopAfter: stopAfter}
	_ = em.emit(v) // error or not: both fine

	// reuse after Reset vs fresh
	pt := h.Choose("probeTarget", 0, numTargets-1)
	reused := newTarget(pt)
	u.Reset()
	err1 := u.SetTarget(reused)
	var perr1 error
	if err1 == nil {
		perr1 = probeDoc(pt, structform.EnsureExtVisitor(u))
	}
	fresh := newTarget(pt)
	u2, err2 := gotype.NewUnfolder(fresh)
	var perr2 error
	if err2 == nil {
		perr2 = probeDoc(pt, structform.EnsureExtVisitor(u2))
	}
	h.Assert("reset-equals-fresh:settarget", (err1 == nil) == (err2 == nil))
	h.Assert("reset-equals-fresh:error", (perr1 == nil) == (perr2 == nil))
	if perr1 == nil && perr2 == nil && err1 == nil && err2 == nil {
		h.Assert("reset-equals-fresh:value", digest(pt, reused) == digest(pt, fresh))
	}
}

// SETTARGET_Unsupported (C14/C11): targets that cannot be handled are refused with
// an error by NewUnfolder/SetTarget, not by a crash or by reinterpreting memory.
func SETTARGET_Unsupported(h *rt.H) {
	k := h.Choose("kind", 0, 4)
	var to interface{}
	switch k {
	case 0:
		to = new(map[int]string)
	case 1:
		to = new(chan int)
	case 2:
		to = new(func())
	case 3:
		var x int
		to = x // not a pointer
	case 4:
		to = new(map[int]interface{})
	}
	u, err := gotype.NewUnfolder(to)
	if err == nil {
		// if the target is accepted, a document must not corrupt it
		ext := structform.EnsureExtVisitor(u)
		e := ext.OnObjectStart(1, structform.AnyType)
		if e == nil {
			e = ext.OnKey("1")
		}
		if e == nil {
			e = ext.OnString("x")
		}
		if e == nil {
			e = ext.OnObjectFinished()
		}
		h.Assert("refused-or-error", e != nil)
	}
}

type deepTarget struct {
	A int8
	X interface{}
	S []int8
}

// UNFOLD_DeepAbandon (C14, C17): a document nested deeper than the unfolder's initial
// stacks (32 entries) is abandoned at a symbolically chosen event after an error-free
// prefix (or runs into a mismatch error); after Reset and SetTarget the same unfolder
// processes the next documents exactly as a new one does.
func UNFOLD_DeepAbandon(h *rt.H) {
	depth := h.Choose("depth", 30, 36)
	x := int8(h.U8("x"))
	var t1, t2, t3 deepTarget
	u, err := gotype.NewUnfolder(&t1)
	h.Assert("unfolder-created", err == nil)
	v := structform.EnsureExtVisitor(u)
	// document 1: {"a":x,"x":[[[...[x]...]]] ...
	var e error
	step := func(r error) {
		if e == nil {
			e = r
		}
	}
	step(v.OnObjectStart(-1, structform.AnyType))
	step(v.OnKey("a"))
	step(v.OnInt8(x))
	step(v.OnKey("x"))
	for i := 0; i < depth; i++ {
		step(v.OnArrayStart(-1, structform.AnyType))
	}
	step(v.OnInt8(x))
	h.Assert("deep-prefix-accepted", e == nil)
	switch h.Choose("abandon", 0, 2) {
	case 0: // abandoned at the deepest point
	case 1: // closed again half way, then abandoned
		for i := 0; i < depth/2; i++ {
			step(v.OnArrayFinished())
		}
		h.Assert("half-closed", e == nil)
	case 2: // closed completely, then a mismatch: "s" wants an array
		for i := 0; i < depth; i++ {
			step(v.OnArrayFinished())
		}
		step(v.OnKey("s"))
		h.Assert("closed", e == nil)
		h.Assert("mismatch-is-an-error", v.OnString("no array") != nil)
	}
	doc := func(w structform.ExtVisitor) error {
		var e error
		step := func(r error) {
			if e == nil {
				e = r
			}
		}
		step(w.OnObjectStart(-1, structform.AnyType))
		step(w.OnKey("a"))
		step(w.OnInt8(x))
		step(w.OnKey("x"))
		step(w.OnArrayStart(-1, structform.AnyType))
		step(w.OnInt8(x))
		step(w.OnArrayFinished())
		step(w.OnKey("s"))
		step(w.OnArrayStart(1, structform.AnyType))
		step(w.OnInt8(x))
		step(w.OnArrayFinished())
		step(w.OnObjectFinished())
		return e
	}
	u.Reset()
	h.Assert("settarget", u.SetTarget(&t2) == nil)
	h.Assert("next-document", doc(v) == nil)
	// once more: a repaired state must stay repaired
	u.Reset()
	h.Assert("settarget-2", u.SetTarget(&t2) == nil)
	h.Assert("next-document-2", doc(v) == nil)
	u2, err := gotype.NewUnfolder(&t3)
	h.Assert("fresh-created", err == nil)
	h.Assert("fresh-document", doc(structform.EnsureExtVisitor(u2)) == nil)
	a2, ok2 := t2.X.([]interface{})
	a3, ok3 := t3.X.([]interface{})
	same := ok2 && ok3 && len(a2) == 1 && len(a3) == 1 && len(t2.S) == 1 && len(t3.S) == 1
	if same {
		same = rt.And(rt.And(t2.A == x, t3.A == x), rt.And(t2.S[0] == x, t3.S[0] == x))
	}
	h.Assert("same-as-fresh", same)
}

type smInner struct{ X int8 }

type smTarget struct {
	P  int8
	A  smInner
	Q  *smInner
	S  []int8
	B  int8
	G1 int16 `struct:"-"`
	G2 int16 `struct:"-"`
}

// UNFOLD_StructMember (C14, C13): {"p":x, "<member>": <value of a kind that may not
// fit>, "b":y}: the value for a struct, pointer-to-struct, slice or scalar member is
// null, a scalar, a string, an array or an object. Either an event returns an error,
// or the document is accepted and then every other member holds what the stream said
// and nothing else was written (guard fields, no write outside the target).
func UNFOLD_StructMember(h *rt.H) {
	x, y := int8(h.U8("x")), int8(h.U8("y"))
	member := []string{"a", "q", "s", "p"}[h.Choose("member", 0, 3)]
	to := smTarget{P: x + 1, B: y + 1, G1: 771, G2: 772}
	u, err := gotype.NewUnfolder(&to)
	h.Assert("unfolder-created", err == nil)
	v := structform.EnsureExtVisitor(u)
	step := func(e error) {
		if err == nil {
			err = e
		}
	}
	step(v.OnObjectStart(-1, structform.AnyType))
	if member != "p" {
		step(v.OnKey("p"))
		step(v.OnInt8(x))
	}
	step(v.OnKey(member))
	switch h.Choose("value", 0, 5) {
	case 0:
		step(v.OnNil())
	case 1:
		step(v.OnInt8(x))
	case 2:
		step(v.OnString("s"))
	case 3:
		step(v.OnArrayStart(1, structform.AnyType))
		step(v.OnInt8(x))
		step(v.OnArrayFinished())
	case 4:
		step(v.OnObjectStart(1, structform.AnyType))
		step(v.OnKey("x"))
		step(v.OnInt8(x))
		step(v.OnObjectFinished())
	case 5:
		step(v.OnBool(true))
	}
	step(v.OnKey("b"))
	step(v.OnInt8(y))
	step(v.OnObjectFinished())
	h.ObserveBool("refused", err != nil)
	if err != nil {
		return
	}
	h.Assert("b-assigned", to.B == y)
	if member != "p" {
		h.Assert("p-assigned", to.P == x)
	}
	h.Assert("nothing-else-written", to.G1 == 771 && to.G2 == 772)
}
