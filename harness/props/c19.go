package props

import (
	"github.com/elastic/go-structform/gotype"

	"verif/harness/ev"
	"verif/harness/rt"
)

type pipeT struct {
	A int    `struct:"a"`
	B string `struct:"b,omitempty"`
	C []int8
	D map[string]int
	E *pipeIn
}

// pipeFoldT is what the pipelines fold: pipeT plus an inlined interface member (its
// compiled folder keeps per-fold state). The unfold target is pipeT: the member the
// inlined map contributes has no field there and is skipped.
type pipeFoldT struct {
	A int    `struct:"a"`
	B string `struct:"b,omitempty"`
	C []int8
	D map[string]int
	E *pipeIn
	I interface{} `struct:",inline"`
}

type pipeIn struct{ X uint16 }

// pipeline: fold a value of a struct type (first use of the type on this iterator:
// reflection based compilation of its folder) into an encoder, parse the bytes, unfold
// into a fresh variable of the same type (first use for the unfolder as well).
func pipeline(c *codec, v *pipeFoldT, out *pipeT, errOut *error) func() {
	return func() {
		s := &sink{}
		if err := gotype.Fold(*v, c.newVisitor(s)); err != nil {
			*errOut = err
			return
		}
		u, err := gotype.NewUnfolder(out)
		if err != nil {
			*errOut = err
			return
		}
		*errOut = c.parse(s.B, u)
	}
}

// TWO_PIPELINES (C19): two fold/encode/parse/unfold pipelines on their own instances
// over shared input data and a shared Go type. Sufficient condition decided here:
// neither pipeline writes state that existed before it started (package-level
// variables, anything reachable from them, the shared input), and neither reads what
// the other wrote; then there are no conflicting accesses, hence no data race, hence
// every interleaving equals running alone (Go memory model). Natively the two run
// concurrently under the race detector (race-enabled replay binary).
func TWO_PIPELINES(h *rt.H) {
	a, cc, d, x := h.U8("A"), h.U8("C"), h.U8("D"), h.U8("X")
	// one decimal digit each: the number encodings are C01's subject
	h.Assume(a <= 9 && cc <= 9 && d <= 9 && x <= 9)
	in := &pipeFoldT{A: int(a), C: []int8{int8(cc)}, D: map[string]int{"k": int(d)}, E: &pipeIn{X: uint16(x)}, I: map[string]interface{}{"i": int(x)}}
	if h.Choose("hasB", 0, 1) == 1 {
		b := h.Bytes("B", 1)
		h.Assume(b[0] >= 'a' && b[0] <= 'z')
		in.B = string(b)
	}
	c1 := []*codec{jsonCodec, ubjsonCodec, cborCodec}[h.Choose("codec1", 0, 2)]
	c2 := []*codec{jsonCodec, ubjsonCodec, cborCodec}[h.Choose("codec2", 0, 2)]
	var o1, o2 pipeT
	var e1, e2 error
	h.Go(pipeline(c1, in, &o1, &e1), pipeline(c2, in, &o2, &e2))
	h.AssertIndependent("independent")
	h.Assert("no-error", e1 == nil && e2 == nil)
	same := o1.A == in.A && o2.A == in.A && rt.BytesEq([]byte(o1.B), []byte(in.B)) && rt.BytesEq([]byte(o2.B), []byte(in.B))
	h.Assert("same-result-as-alone", same && len(o1.C) == 1 && len(o2.C) == 1 && o1.C[0] == in.C[0] && o2.C[0] == in.C[0] && o1.E != nil && o2.E != nil && o1.E.X == in.E.X && o2.E.X == in.E.X)
	_ = ev.Nil
}
