package props

import (
	structform "github.com/elastic/go-structform"
	"github.com/elastic/go-structform/gotype"
	"github.com/elastic/go-structform/json"

	"verif/harness/ev"
	"verif/harness/rt"
)

type pipeT struct {
	A int    `struct:"a"`
	B string `struct:"b,omitempty"`
	C []int8
	D map[string]int
	E *pipeIn
}

// pipeFoldT is what the pipelines fold: pipeT plus an inlined interface member (its
// compiled folder keeps per-fold state). The unfold target is pipeT: the member the
// inlined map contributes has no field there and is skipped.
type pipeFoldT struct {
	A int    `struct:"a"`
	B string `struct:"b,omitempty"`
	C []int8
	D map[string]int
	E *pipeIn
	I interface{} `struct:",inline"`
}

type pipeIn struct{ X uint16 }

// pipeline: fold a value of a struct type (first use of the type on this iterator:
// reflection based compilation of its folder) into an encoder, parse the bytes, unfold
// into a fresh variable of the same type (first use for the unfolder as well).
func pipeline(c *codec, v *pipeFoldT, out *pipeT, errOut *error) func() {
	return func() {
		s := &sink{}
		if err := gotype.Fold(*v, c.newVisitor(s)); err != nil {
			*errOut = err
			return
		}
		u, err := gotype.NewUnfolder(out)
		if err != nil {
			*errOut = err
			return
		}
		*errOut = c.parse(s.B, u)
	}
}

// TWO_PIPELINES (C19): two fold/encode/parse/unfold pipelines on their own instances
// over shared input data and a shared Go type. Sufficient condition decided here:
// neither pipeline writes state that existed before it started (package-level
// variables, anything reachable from them, the shared input), and neither reads what
// the other wrote; then there are no conflicting accesses, hence no data race, hence
// every interleaving equals running alone (Go memory model). Natively the two run
// concurrently under the race detector (race-enabled replay binary).
func TWO_PIPELINES(h *rt.H) {
	a, cc, d, x := h.U8("A"), h.U8("C"), h.U8("D"), h.U8("X")
	// one decimal digit each: the number encodings are C01's subject
	h.Assume(a <= 9 && cc <= 9 && d <= 9 && x <= 9)
	in := &pipeFoldT{A: int(a), C: []int8{int8(cc)}, D: map[string]int{"k": int(d)}, E: &pipeIn{X: uint16(x)}, I: map[string]interface{}{"i": int(x)}}
	if h.Choose("hasB", 0, 1) == 1 {
		b := h.Bytes("B", 1)
		h.Assume(b[0] >= 'a' && b[0] <= 'z')
		in.B = string(b)
	}
	c1 := []*codec{jsonCodec, ubjsonCodec, cborCodec}[h.Choose("codec1", 0, 2)]
	c2 := []*codec{jsonCodec, ubjsonCodec, cborCodec}[h.Choose("codec2", 0, 2)]
	var o1, o2 pipeT
	var e1, e2 error
	h.Go(pipeline(c1, in, &o1, &e1), pipeline(c2, in, &o2, &e2))
	h.AssertIndependent("independent")
	h.Assert("no-error", e1 == nil && e2 == nil)
	same := o1.A == in.A && o2.A == in.A && rt.BytesEq([]byte(o1.B), []byte(in.B)) && rt.BytesEq([]byte(o2.B), []byte(in.B))
	h.Assert("same-result-as-alone", same && len(o1.C) == 1 && len(o2.C) == 1 && o1.C[0] == in.C[0] && o2.C[0] == in.C[0] && o1.E != nil && o2.E != nil && o1.E.X == in.E.X && o2.E.X == in.E.X)
	_ = ev.Nil
}

// TWO_PARSERS (C19): two parsers of the same format, each with its own recorder, fed
// from one shared buffer that has spare capacity behind the document: pipeline 1 in
// three chunks shared[:i], shared[i:j], shared[j:n] (every i<j), pipeline 2 in two
// chunks (every cut). Neither may write the shared array (not even its spare
// capacity) and both report what a parser running alone on a private copy reports.
func TWO_PARSERS(h *rt.H) {
	ci := h.Choose("codec", 0, 2)
	c := []*codec{jsonCodec, ubjsonCodec, cborCodec}[ci]
	s := h.Bytes("S", 5)
	for _, b := range s {
		h.Assume(b >= 'a' && b <= 'z')
	}
	hi, lo := h.U8("hi"), h.U8("lo")
	var doc []byte
	switch ci {
	case 0:
		h.Assume(hi >= '1' && hi <= '9' && lo >= '0' && lo <= '9')
		// (with escape sequences: they are decoded in a buffer of the parser's own)
		doc = []byte{'[', '"', s[0], '\\', 'n', s[1], s[2], '"', ',', hi, lo, '0', '7', ',', '"', '\\', 'u', '0', '0', '4', '1', s[3], s[4], '"', ']'}
	case 1:
		doc = []byte{'[', 'S', 'U', 3, s[0], s[1], s[2], 'I', hi, lo, 'S', 'U', 2, s[3], s[4], ']'}
	default:
		doc = []byte{0x9f, 0x63, s[0], s[1], s[2], 0x19, hi, lo, 0x62, s[3], s[4], 0xff}
	}
	n := len(doc)
	shared := make([]byte, n, n+32)
	copy(shared, doc)
	i := h.Choose("i", 1, n-2)
	j := h.Choose("j", i+1, n-1)
	k := h.Choose("k", 1, n-1)
	run := func(cuts []int, rec *ev.Recorder, errOut *error) func() {
		return func() {
			rec.Events = nil
			p := c.newParser(rec)
			prev := 0
			for _, cut := range append(cuts, n) {
				if _, err := p.Write(shared[prev:cut]); err != nil {
					*errOut = err
					return
				}
				prev = cut
			}
		}
	}
	var r1, r2, alone ev.Recorder
	var e1, e2 error
	h.Go(run([]int{i, j}, &r1, &e1), run([]int{k}, &r2, &e2))
	h.AssertIndependent("independent")
	h.Assert("no-error", e1 == nil && e2 == nil)
	h.Assert("input-untouched", rt.BytesEq(shared[:n], doc))
	errAlone := c.parse(cloneBytes(doc), &alone)
	h.Assert("same-result-as-alone", errAlone == nil && ev.Equal(r1.Events, alone.Events) && ev.Equal(r2.Events, alone.Events))
}

// TWO_ENCODERS (C19): two encoders of the same format on their own sinks, with their
// own option settings, writing shared strings and keys: no store to anything that
// existed before, and each output equals what the same encoder produces alone.
func TWO_ENCODERS(h *rt.H) {
	ci := h.Choose("codec", 0, 2)
	c := []*codec{jsonCodec, ubjsonCodec, cborCodec}[ci]
	// ASCII only (UTF-8 handling is C07's subject); '<', '>', '&' and the control
	// characters are in range
	kb, sb := h.Bytes("K", 1), h.Bytes("S", 2)
	h.Assume(kb[0] < 0x80 && sb[0] < 0x80 && sb[1] < 0x80)
	key, str := "<"+string(kb), string(sb)
	// above MaxInt64 (UBJSON writes it as a high-precision number); concrete: number
	// formatting is C01's subject, here only where the digits are kept matters
	big := uint64(10000000000000000001)
	var f1, f2, x1, x2 bool
	if ci == 0 {
		f1, f2 = h.Choose("html1", 0, 1) == 1, h.Choose("html2", 0, 1) == 1
		x1, x2 = h.Choose("radix1", 0, 1) == 1, h.Choose("radix2", 0, 1) == 1
	}
	enc := func(html, radix bool, out *sink, errOut *error) func() {
		return func() {
			out.B = nil
			v := c.newVisitor(out)
			if jv, ok := v.(*json.Visitor); ok {
				jv.SetEscapeHTML(html)
				jv.SetExplicitRadixPoint(radix)
			}
			err := v.OnObjectStart(5, structform.AnyType)
			step := func(e error) {
				if err == nil {
					err = e
				}
			}
			step(v.OnKey(key))
			step(v.OnString(str))
			step(v.OnKey("f"))
			step(v.OnFloat64(2))
			step(v.OnKey("u"))
			step(v.OnUint64(big)) // above MaxInt64: UBJSON high-precision number
			step(v.OnKey("i"))
			step(v.OnInt64(-int64(big >> 1)))
			step(v.OnKey("a"))
			step(structform.EnsureExtVisitor(v).OnUint64Array([]uint64{big, 1}))
			step(v.OnObjectFinished())
			*errOut = err
		}
	}
	var o1, o2, a1, a2 sink
	var e1, e2, e3, e4 error
	h.Go(enc(f1, x1, &o1, &e1), enc(f2, x2, &o2, &e2))
	h.AssertIndependent("independent")
	enc(f1, x1, &a1, &e3)()
	enc(f2, x2, &a2, &e4)()
	h.Assert("no-error", e1 == nil && e2 == nil && e3 == nil && e4 == nil)
	h.Assert("same-result-as-alone", rt.BytesEq(o1.B, a1.B) && rt.BytesEq(o2.B, a2.B))
}

type sharedOptNum int8

type sharedOptCell struct {
	Lo, Hi sharedOptNum
}

type sharedOptT struct {
	S int16
	n int8
}

type sharedOptFoldT struct{ A int8 }

// TWO_SHARED_OPTIONS (C19): two unfolders (and two iterators) that are separate
// instances but were configured with the *same* option values - an option is a
// description, instances built from it share nothing mutable. One pipeline per
// goroutine: unfold {"lo":x,"hi":y} through a processing unfolder whose cell is a
// struct (its unfolder is compiled on first use), then fold a value through a
// registered folder. No write to anything that existed before the two started.
func TWO_SHARED_OPTIONS(h *rt.H) {
	x, y := int8(h.U8("x")), int8(h.U8("y"))
	h.Assume(x >= 0 && x <= 9 && y >= 0 && y <= 9)
	proc := func(to *sharedOptT) (interface{}, func(*sharedOptT, interface{}) error) {
		return &sharedOptCell{}, func(to *sharedOptT, cell interface{}) error {
			c := cell.(*sharedOptCell)
			to.S = int16(c.Hi) - int16(c.Lo)
			to.n++
			return nil
		}
	}
	prim := func(to *sharedOptNum, s string) error {
		*to = sharedOptNum(len(s))
		return nil
	}
	folder := func(p *sharedOptFoldT, v structform.ExtVisitor) error { return v.OnInt16(int16(p.A) + 1000) }
	uopt := gotype.Unfolders(proc)
	fopt := gotype.Folders(folder)
	// the second unfolder registers one more user unfolder: its registry differs
	extra := h.Param("EXTRA", 0) == 1 // (not registered: with two Unfolders options the second pipeline is refused also when it runs alone)
	run := func(second bool, out *sharedOptT, ev2 *ev.Recorder, errOut *error) func() {
		return func() {
			opts := []gotype.UnfoldOption{uopt}
			if second && extra {
				opts = append(opts, gotype.Unfolders(prim))
			}
			u, err := gotype.NewUnfolder(out, opts...)
			if err != nil {
				*errOut = err
				return
			}
			v := structform.EnsureExtVisitor(u)
			step := func(e error) {
				if *errOut == nil {
					*errOut = e
				}
			}
			step(v.OnObjectStart(-1, structform.AnyType))
			step(v.OnKey("lo"))
			if second && extra {
				step(v.OnString("abc"))
			} else {
				step(v.OnInt8(x))
			}
			step(v.OnKey("hi"))
			step(v.OnInt8(y))
			step(v.OnObjectFinished())
			it, err := gotype.NewIterator(ev2, fopt)
			if err != nil {
				step(err)
				return
			}
			step(it.Fold(sharedOptFoldT{x}))
		}
	}
	var o1, o2 sharedOptT
	var r1, r2 ev.Recorder
	var e1, e2 error
	h.Go(run(false, &o1, &r1, &e1), run(true, &o2, &r2, &e2))
	h.AssertIndependent("independent")
	h.Assert("no-error", e1 == nil && e2 == nil)
	lo2 := x
	if extra {
		lo2 = 3
	}
	h.Assert("same-result-as-alone", o1.S == int16(y)-int16(x) && o1.n == 1 && o2.S == int16(y)-int16(lo2) && o2.n == 1)
	want := []ev.Event{sNum(int64(x) + 1000)}
	h.Assert("fold-same-as-alone", ev.Equal(ev.Normalise(r1.Events), want) && ev.Equal(ev.Normalise(r2.Events), want))
}
