package props

import (
	"io"

	"verif/harness/ev"
	"verif/harness/ref"
	"verif/harness/rt"
)

// schedReader returns the stream in reads of symbolically chosen sizes; it may
// return the last bytes together with io.EOF, and may return a zero-length read once.
type schedReader struct {
	h       *rt.H
	doc     []byte
	pos     int
	maxRead int
	zeroAt  int // read call index at which (0, nil) is returned once; -1 never
	eofWith bool
	calls   int
	first   int // size of the first read, then alternating with rest (0: not chosen yet)
	rest    int
}

func (r *schedReader) Read(p []byte) (int, error) {
	r.calls++
	if r.calls > 64+2*len(r.doc) {
		return 0, io.ErrNoProgress // harness guard: the decoder keeps reading after EOF
	}
	if r.calls-1 == r.zeroAt {
		return 0, nil
	}
	if r.pos >= len(r.doc) {
		return 0, io.EOF
	}
	max := len(p)
	if rem := len(r.doc) - r.pos; rem < max {
		max = rem
	}
	if r.maxRead < max {
		max = r.maxRead
	}
	if max == 0 {
		return 0, nil
	}
	// read sizes: one symbolic size for the first read and one for the reads after
	// it (every pair of sizes up to maxRead is explored, not every sequence)
	if r.first == 0 {
		r.first = r.h.Choose("firstRead", 1, r.maxRead)
		r.rest = r.h.Choose("otherReads", 1, r.maxRead)
	}
	n := r.rest
	if r.calls == 1 || (r.zeroAt == 0 && r.calls == 2) {
		n = r.first
	}
	if n > max {
		n = max
	}
	copy(p, r.doc[r.pos:r.pos+n])
	r.pos += n
	if r.pos == len(r.doc) && r.eofWith {
		return n, io.EOF
	}
	return n, nil
}

// pullDecoder (C18): k documents, a pull decoder over the byte slice and over a
// reader with arbitrary read sizes: k calls of Next succeed, each delivering exactly
// the events of the next document, then io.EOF.
func pullDecoder(h *rt.H, c *codec) {
	useReader := h.Param("READER", 1) == 1 && h.Choose("reader", 0, 1) == 1
	k := 1
	if !useReader || h.Param("READERDOCS", 1) > 1 {
		k = h.Choose("docs", 1, h.Param("DOCS", 2))
	}
	var docs [][]byte
	var want [][]ev.Event
	var stream []byte
	for i := 0; i < k; i++ {
		d := shapedDoc(h, c)
		var rec ev.Recorder
		err := c.parse(cloneBytes(d), &rec)
		h.Assert("doc-accepted", err == nil)
		docs = append(docs, d)
		want = append(want, rec.Events)
		if c == jsonCodec && i > 0 {
			stream = append(stream, ' ')
		}
		stream = append(stream, d...)
	}
	var rec ev.Recorder
	var dec nexter
	if useReader {
		buf := []int{1, 2, 4, 16}[h.Choose("buf", 0, 3)]
		r := &schedReader{h: h, doc: cloneBytes(stream), maxRead: h.Param("MAXREAD", 2), zeroAt: h.Choose("zeroAt", -1, 1), eofWith: h.Choose("eofWithData", 0, 1) == 1}
		dec = c.readerDec(r, buf, &rec)
		h.Tag("decoder.reader")
	} else {
		dec = c.bytesDec(cloneBytes(stream), &rec)
	}
	for i := 0; i < k; i++ {
		mark := len(rec.Events)
		err := dec.Next()
		if i == k-1 && err == io.EOF && len(rec.Events)-mark == len(want[i]) {
			// the last value was completed by the end of the input and delivered
			// together with io.EOF: tolerated (see DESIGN, json trailing number)
			h.Tag("value-with-eof")
			h.Assert("events", ev.Equal(rec.Events[mark:], want[i]))
			return
		}
		h.Assert("next-succeeds", err == nil)
		h.Assert("events", ev.Equal(rec.Events[mark:], want[i]))
	}
	mark := len(rec.Events)
	err := dec.Next()
	h.Assert("eof", err == io.EOF)
	h.Assert("no-events-at-eof", len(rec.Events) == mark)
}

func DEC_cborl(h *rt.H)  { pullDecoder(h, cborCodec) }
func DEC_ubjson(h *rt.H) { pullDecoder(h, ubjsonCodec) }
func DEC_json(h *rt.H)   { pullDecoder(h, jsonCodec) }

// pullTruncated (C18/C03): a stream cut inside a value is an error distinct from io.EOF.
func pullTruncated(h *rt.H, c *codec) {
	d := shapedDoc(h, c)
	var full ev.Recorder
	h.Assert("doc-accepted", c.parse(cloneBytes(d), &full) == nil)
	if len(d) < 2 {
		return
	}
	cut := h.Choose("cut", 1, len(d)-1)
	pre := d[:cut]
	// only cuts that really are inside the value, as judged by the reference decoder
	// (a prefix may itself be complete, e.g. "12" of "123")
	if _, class, _ := c.refDecode(h, pre); class != ref.Truncated {
		return
	}
	var rec ev.Recorder
	var dec nexter
	if h.Choose("reader", 0, 1) == 1 {
		r := &schedReader{h: h, doc: cloneBytes(pre), maxRead: h.Param("MAXREAD", 2), zeroAt: -1, eofWith: h.Choose("eofWithData", 0, 1) == 1}
		dec = c.readerDec(r, 4, &rec)
	} else {
		dec = c.bytesDec(cloneBytes(pre), &rec)
	}
	err := dec.Next()
	for i := 0; i < 4 && err == nil; i++ {
		err = dec.Next()
	}
	h.Assert("truncated-error", err != nil && err != io.EOF)
}

func DECTRUNC_cborl(h *rt.H)  { pullTruncated(h, cborCodec) }
func DECTRUNC_ubjson(h *rt.H) { pullTruncated(h, ubjsonCodec) }
func DECTRUNC_json(h *rt.H)   { pullTruncated(h, jsonCodec) }
