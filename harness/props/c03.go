package props

import (
	"io"

	"verif/harness/ev"
	"verif/harness/ref"
	"verif/harness/rt"
)

// survive: arbitrary bytes through every entry point that knows where the input
// ends. The monitors (panic, instruction budget, allocation bound) are the main
// property; in addition truncated input must be reported as an error.
func survive(h *rt.H, c *codec, in []byte) {
	_, class, _ := c.refDecode(h, in)
	h.Tag("class." + ref.ClassNames6[class])
	trunc := class == ref.Truncated

	var a ev.Recorder
	errA := c.parse(cloneBytes(in), &a)
	if trunc {
		h.Assert("truncated-error:Parse", errA != nil && errA != io.EOF)
	}

	var s ev.Recorder
	errS := c.parseString(string(in), &s)
	if trunc {
		h.Assert("truncated-error:ParseString", errS != nil && errS != io.EOF)
	}

	// pull decoder over the byte slice: Next until it stops; bounded by len(in)+2 calls
	var d ev.Recorder
	dec := c.bytesDec(cloneBytes(in), &d)
	var errD error
	calls := 0
	for calls = 0; calls < len(in)+2; calls++ {
		if errD = dec.Next(); errD != nil {
			break
		}
	}
	h.Assert("decoder-terminates", errD != nil)
	if trunc {
		h.Assert("truncated-error:Decoder", errD != nil && errD != io.EOF)
	}
	h.ObserveBool("errA", errA != nil)
	h.ObserveBool("errD-eof", errD == io.EOF)
	h.ObserveBytes("eventsA", ev.Serialize(a.Events))
}

func surviveBytes(h *rt.H, c *codec) {
	survive(h, c, h.Bytes("in", h.Param("N", 2)))
}

// BYTES_<codec>: every byte string of length N.
func BYTES_cborl(h *rt.H)  { surviveBytes(h, cborCodec) }
func BYTES_ubjson(h *rt.H) { surviveBytes(h, ubjsonCodec) }
func BYTES_json(h *rt.H)   { surviveBytes(h, jsonCodec) }

// HEAD_cborl: initial byte + the announced argument bytes + one trailing byte.
func HEAD_cborl(h *rt.H) {
	ai := h.Choose("ai", 24, 27)
	w := 1 << uint(ai-24)
	in := h.Bytes("in", 1+w+1)
	h.Assume(in[0]&31 == byte(ai))
	survive(h, cborCodec, in)
}

// HEAD_ubjson: a marker, a length marker, 8 symbolic length bytes, one trailing byte
// (lengths and counts up to 2^63-1 and negative ones).
func HEAD_ubjson(h *rt.H) {
	shape := h.Choose("shape", 0, 7)
	var pre []byte
	switch shape {
	case 0:
		pre = []byte{'S'}
	case 1:
		pre = []byte{'H'}
	case 2:
		pre = []byte{'[', '#'}
	case 3:
		pre = []byte{'{', '#'}
	case 4:
		pre = []byte{'[', '$', 'i', '#'}
	case 5:
		pre = []byte{'{'}
	case 6, 7:
		// typed container with a symbolic element type marker (incl. no-op, containers).
		// Elements of type null/true/false have no payload: such a container
		// legitimately expands to its (here unbounded, symbolic) count; excluded.
		et := h.U8("elemtype")
		h.Assume(et != 'T' && et != 'F' && et != 'Z')
		open := byte('[')
		if shape == 7 {
			open = '{'
		}
		pre = []byte{open, '$', et, '#'}
	}
	lm := []byte{'i', 'U', 'I', 'l', 'L'}[h.Choose("lenmarker", 0, 4)]
	w := map[byte]int{'i': 1, 'U': 1, 'I': 2, 'l': 4, 'L': 8}[lm]
	in := append(append(pre, lm), h.Bytes("len", w)...)
	in = append(in, h.Bytes("tail", 1)...)
	survive(h, ubjsonCodec, in)
}

// contextPrefixes: openings that put a parser into the middle of a container (nested,
// counted, typed, after a key, in an indefinite container), so that the symbolic bytes
// which follow are read in those states rather than at top level.
func contextPrefixes(c *codec) [][]byte {
	switch c {
	case cborCodec:
		return [][]byte{
			{0x82},             // array(2)
			{0xa1, 0x61, 'a'},  // map(1), key "a"
			{0x9f},             // array(*)
			{0xbf, 0x61, 'a'},  // map(*), key "a"
			{0x82, 0x81},       // array(2) > array(1)
			{0x9f, 0x82, 0x01}, // array(*) > array(2) with one element
			{0xa2, 0x60},       // map(2), empty key
		}
	case ubjsonCodec:
		return [][]byte{
			{'['},
			{'[', '#', 'i', 2},
			{'[', '$', '[', '#', 'i', 2}, // typed array of arrays
			{'[', '$', '{', '#', 'i', 2}, // typed array of objects
			{'{', 'i', 1, 'a'},
			{'{', '#', 'i', 2, 'i', 1, 'a'},
			{'{', '$', '[', '#', 'i', 1, 'i', 1, 'a'}, // typed object of arrays, after the key
			{'[', '[', '#', 'i', 1},
			{'[', '#', 'i', 2, '['},           // plain array inside a counted one
			{'[', '$', '[', '#', 'i', 2, '$'}, // typed array of arrays, at the element type of the first inner typed array
			{'[', '$', '{', '#', 'i', 2, '$'},
			{'[', '#', 'i', 2, '[', '$'},
		}
	}
	return [][]byte{
		[]byte(`[`),
		[]byte(`{"a":`),
		[]byte(`[1,`),
		[]byte(`{"a":1,`),
		[]byte(`[[`),
		[]byte(`{"a":[`),
		[]byte(`["x",`),
	}
}

// prefixedBytes: a context prefix followed by every byte string of length N, through
// the arbitrary-bytes harness (C03) and the conformance harness (C04-C06, C09).
func prefixedBytes(h *rt.H, c *codec, conformance bool) {
	ps := contextPrefixes(c)
	p := ps[h.Choose("prefix", 0, len(ps)-1)]
	in := append(append([]byte{}, p...), h.Bytes("in", h.Param("N", 3))...)
	if conformance {
		conform(h, c, in)
	} else {
		survive(h, c, in)
	}
}

func PREFIXED_cborl(h *rt.H)       { prefixedBytes(h, cborCodec, false) }
func PREFIXED_ubjson(h *rt.H)      { prefixedBytes(h, ubjsonCodec, false) }
func PREFIXED_json(h *rt.H)        { prefixedBytes(h, jsonCodec, false) }
func PREFIXED_Conf_cborl(h *rt.H)  { prefixedBytes(h, cborCodec, true) }
func PREFIXED_Conf_ubjson(h *rt.H) { prefixedBytes(h, ubjsonCodec, true) }
func PREFIXED_Conf_json(h *rt.H)   { prefixedBytes(h, jsonCodec, true) }
