package props

import (
	"math"

	structform "github.com/elastic/go-structform"

	"verif/harness/ev"
	"verif/harness/ref"
	"verif/harness/rt"
)

func extOptsFor(c *codec) extOpts {
	o := extOpts{maxUint: math.MaxUint64}
	if c == ubjsonCodec {
		o.maxUint = math.MaxInt64 // above: 'H' decimal strings (documented representation change)
	}
	if c == jsonCodec {
		// float text is strconv's; the decimal integer kernel is RT_JSONInt's subject:
		// here integers are one digit so that the digit loops are decided from ranges
		o.concreteFlt = true
		o.maxUint, o.maxAbs = 9, 9
	}
	return o
}

// anyEqual: got equals one of the admissible expansions.
func anyEqual(got []ev.Event, wants [][]ev.Event) bool {
	ok := false
	for _, w := range wants {
		ok = rt.Or(ok, ev.Equal(got, w))
	}
	return ok
}

// extPad (SLEN=m > 0): a string of an extended event is padded with a fixed pattern to
// a length chosen in 2..m (choice 0/1: left as it is) - short-string fast paths and
// scratch buffers of the encoders.
func extPad(h *rt.H, s []byte) []byte {
	m := h.Param("SLEN", 0)
	if m == 0 {
		return s
	}
	l := h.Choose("slen", 0, m)
	out := cloneBytes(s)
	for j := len(out); j < l; j++ {
		out = append(out, byte('a'+j%26))
	}
	return out
}

// extEncode (C10, C07): an extended event through an encoder, at top level, inside
// an array followed by a scalar, or inside an object followed by another member;
// the bytes are decoded by the reference decoder and must describe
// prefix + expansion + suffix. The suffix makes leaked encoder state observable.
func extEncode(h *rt.H, c *codec) {
	k := h.Choose("ext", 0, numExtEvents-1)
	n := h.Choose("n", 0, h.Param("N", 2))
	// NBIG: array events (0..14) with lengths around the points where the length
	// prefix of CBOR (23/24) and of CBOR/UBJSON (255/256) changes width
	eo := extOptsFor(c)
	if h.Param("SLEN", 0) > 0 {
		h.Assume(k == 1 || k == 16 || k == 29) // the events carrying strings
	}
	if nb := h.Param("NBIG", 0); nb > 0 {
		h.Assume(k >= 2 && k <= 12) // the integer arrays and OnBytes
		n = [][]int{{23, 24, 25}, {255, 256}}[nb-1][h.Choose("nbig", 0, 2-(nb-1))]
		// one-digit non-negative elements: no fork per element (the element encodings
		// are the subject of the short arrays)
		eo.maxUint, eo.maxAbs, eo.nonNeg = 9, 9, true
	}
	ctx := h.Choose("ctx", 0, 2)
	out := &sink{}
	enc := structform.EnsureExtVisitor(c.newVisitor(out))
	var pre, suf []ev.Event
	var err error
	switch ctx {
	case 1:
		err = enc.OnArrayStart(-1, structform.AnyType)
		pre = []ev.Event{{K: ev.ArrStart}}
	case 2:
		err = enc.OnObjectStart(-1, structform.AnyType)
		if err == nil {
			err = enc.OnKey("x")
		}
		pre = []ev.Event{{K: ev.ObjStart}, {K: ev.Key, Str: []byte("x")}}
	}
	h.Assert("prefix-encoded", err == nil)
	exps, err := extEvent(h, k, n, enc, eo)
	h.Assert("encoded", err == nil)
	tail := int8(h.U8("tail"))
	if c == jsonCodec {
		h.Assume(tail >= -9 && tail <= 9)
	}
	switch ctx {
	case 1:
		err = enc.OnInt8(tail)
		if err == nil {
			err = enc.OnArrayFinished()
		}
		suf = []ev.Event{sNum(int64(tail)), {K: ev.ArrEnd}}
	case 2:
		err = enc.OnKey("y")
		if err == nil {
			err = enc.OnInt8(tail)
		}
		if err == nil {
			err = enc.OnObjectFinished()
		}
		suf = []ev.Event{{K: ev.Key, Str: []byte("y")}, sNum(int64(tail)), {K: ev.ObjEnd}}
	}
	h.Assert("suffix-encoded", err == nil)
	got, class, items := c.refDecode(h, out.B)
	h.Assert("valid-document", class == ref.OK && items == 1)
	var wants [][]ev.Event
	for _, e := range exps {
		w := append(append(append([]ev.Event{}, pre...), e...), suf...)
		if c == jsonCodec {
			w = jsonFloats(w)
		}
		wants = append(wants, w)
	}
	h.Assert("value", anyEqual(got, wants))
	h.ObserveBytes("bytes", out.B)
}

func EXT_Encode_cborl(h *rt.H)  { extEncode(h, cborCodec) }
func EXT_Encode_ubjson(h *rt.H) { extEncode(h, ubjsonCodec) }
func EXT_Encode_json(h *rt.H)   { extEncode(h, jsonCodec) }

// ADAPT (C09, C10): the adapters EnsureExtVisitor builds around a plain visitor
// expand every extended event into exactly its basic-event expansion, and the
// stream satisfies the visitor contract (announced length and element type).
func ADAPT_Ext(h *rt.H) {
	k := h.Choose("ext", 0, numExtEvents-1)
	n := h.Choose("n", 0, h.Param("N", 2))
	var rec ev.Recorder
	v := structform.EnsureExtVisitor(&rec)
	exps, err := extEvent(h, k, n, v, extOpts{maxUint: math.MaxUint64})
	h.Assert("no-error", err == nil)
	h.Assert("expansion", anyEqual(ev.Normalise(rec.Events), exps))
	h.Assert("contract", ev.Contract(rec.Events) == "")
	h.ObserveBytes("events", ev.Serialize(rec.Events))
}

// jsonFloats: JSON has one number type; a float32 comes back as the float64 of
// its (shortest) decimal text. The concrete float32 values used with JSON are
// exactly representable with a short decimal, so that is float64(value).
func jsonFloats(evs []ev.Event) []ev.Event {
	out := make([]ev.Event, len(evs))
	for i, e := range evs {
		if e.K == ev.Float32 {
			e = ev.Event{K: ev.Float64, Bits: math.Float64bits(float64(math.Float32frombits(uint32(e.Bits))))}
		}
		out[i] = e
	}
	return out
}
