package props

import (
	structform "github.com/elastic/go-structform"
	"github.com/elastic/go-structform/gotype"
	"github.com/elastic/go-structform/json"

	"verif/harness/ev"
	"verif/harness/gen"
	"verif/harness/rt"
)

type aliasStruct struct {
	K string `struct:"k"`
}

// aliasDoc builds {"<key>": "<val>"} in the codec's format (lengths concrete,
// bytes symbolic lower-case letters so that no escapes occur).
func aliasDoc(h *rt.H, c *codec, key, val []byte) []byte {
	n := &gen.Node{K: gen.KObj, Keys: [][]byte{key}, Kids: []*gen.Node{{K: gen.KStr, Str: val}}}
	switch c {
	case cborCodec:
		return gen.EncodeCBOR(h, n, gen.CBOROpts{Indef: h.Choose("indef", 0, 1) == 1}, nil)
	case ubjsonCodec:
		// plain containers: a counted container is only finished by the next input or
		// by the end of input, which Write alone never signals
		return gen.EncodeUBJSON(h, n, gen.UBJOpts{Container: 0, LenMarker: 'I'}, nil)
	}
	return gen.JSONText(h, n, gen.JSONOpts{}, nil)
}

func letters(h *rt.H, name string, n int) []byte {
	b := h.Bytes(name, n)
	for _, x := range b {
		h.Assume(x >= 'a' && x <= 'z')
	}
	return b
}

// aliasCheck (C15): document 1 is fed to a parser in two chunks whose buffers are
// overwritten as soon as Write returns; the consumer is an unfolder; then document 2
// goes through the same parser and unfolder (internal buffers are reused); finally
// the value stored from document 1 must still be what document 1 said. Token
// lengths straddle the parsers' internal buffer sizes (64 bytes) via the LEN choice;
// the garbage is fixed (0xAA) but the content is symbolic, so a retained alias
// falsifies the assertion for some content.
func aliasCheck(h *rt.H, c *codec) {
	lens := []int{1, 3, 63, 64, 65, 130}
	kl := lens[h.Choose("keyLen", 0, h.Param("MAXLEN", 5))]
	vl := lens[h.Choose("valLen", 0, h.Param("MAXLEN", 5))]
	key, val := letters(h, "key", kl), letters(h, "val", vl)
	doc1 := aliasDoc(h, c, key, val)
	_ = doc1
	target := h.Choose("target", 0, 3)
	var (
		any1, any2 interface{}
		m1, m2     map[string]string
		s1, s2     aliasStruct
		ms1, ms2   map[string][]string // element type handled by the reflection based map unfolder
	)
	t1 := []interface{}{&any1, &m1, &s1, &ms1}[target]
	t2 := []interface{}{&any2, &m2, &s2, &ms2}[target]
	if target == 3 {
		// the value must be an array for this target: {"<key>": ["<val>"]}
		h.Assume(c == jsonCodec)
	}
	if target == 3 {
		doc1 = append(append(append(append([]byte(`{"`), key...), []byte(`":["`)...), val...), []byte(`"]}`)...)
	}
	u, err := gotype.NewUnfolder(t1)
	h.Assert("unfolder-created", err == nil)
	p := c.newParser(u)
	// cut positions: inside the key, inside the value, and at token boundaries
	cut := h.Choose("cut", 1, len(doc1)-1)
	feed := func(b []byte) error {
		chunk := cloneBytes(b)
		_, e := p.Write(chunk)
		for i := range chunk {
			chunk[i] = 0xAA // the caller reuses its buffer
		}
		return e
	}
	err = feed(doc1[:cut])
	if err == nil {
		err = feed(doc1[cut:])
	}
	h.Assert("doc1-parsed", err == nil)
	// document 2 through the same parser and unfolder: different content, same lengths
	key2, val2 := make([]byte, kl), make([]byte, vl)
	for i := range key2 {
		key2[i] = 'Q'
	}
	for i := range val2 {
		val2[i] = 'Z'
	}
	doc2 := aliasDoc(h, c, key2, val2)
	if target == 3 {
		doc2 = append(append(append(append([]byte(`{"`), key2...), []byte(`":["`)...), val2...), []byte(`"]}`)...)
	}
	err = u.SetTarget(t2)
	h.Assert("settarget", err == nil)
	err = feed(doc2)
	h.Assert("doc2-parsed", err == nil)
	// document 1's value must be intact
	var gotVal string
	var has bool
	switch target {
	case 0:
		m, ok := any1.(map[string]interface{})
		if ok {
			var x interface{}
			x, has = m[string(key)]
			gotVal, _ = x.(string)
			has = has && len(m) == 1
		}
	case 1:
		gotVal, has = m1[string(key)]
		has = has && len(m1) == 1
	case 3:
		var a []string
		a, has = ms1[string(key)]
		has = has && len(ms1) == 1 && len(a) == 1
		if has {
			gotVal = a[0]
		}
	case 2:
		// the struct has a field named "k": only hit when the key is "k"
		if kl == 1 {
			h.Assume(key[0] == 'k')
			gotVal, has = s1.K, true
		} else {
			gotVal, has = "", s1.K == ""
			val = nil
		}
	}
	h.Assert("retained-key", has)
	h.Assert("retained-value", rt.BytesEq([]byte(gotVal), val))
	_ = structform.AnyType
}

func ALIAS_cborl(h *rt.H)  { aliasCheck(h, cborCodec) }
func ALIAS_ubjson(h *rt.H) { aliasCheck(h, ubjsonCodec) }
func ALIAS_json(h *rt.H)   { aliasCheck(h, jsonCodec) }

// ALIAS_JSONEscaped (C15): JSON strings and keys with escape sequences are unquoted
// into a parser-owned buffer (beyond 56 raw bytes: into a freshly sized one). The
// strings a visitor received through OnString/OnKey (not the ...Ref events) and kept
// must not change when the parser goes on to unquote the following strings of the
// same document and of a follow-up document. Lengths straddle the literal buffer
// size; the leading bytes are symbolic.
func ALIAS_JSONEscaped(h *rt.H) {
	lens := []int{1, 20, 54, 57, 70}
	l1 := lens[h.Choose("len1", 0, 4)]
	l2 := lens[h.Choose("len2", 0, 4)]
	mk := func(name string, n int) []byte {
		b := make([]byte, n)
		copy(b, letters(h, name, 1))
		for i := 1; i < n; i++ {
			b[i] = byte('a' + i%26)
		}
		return b
	}
	s1, s2 := mk("s1", l1), mk("s2", l2)
	asKey := h.Choose("asKey", 0, 1) == 1
	var doc []byte
	quoted := func(s []byte) []byte { return append(append([]byte(`"\t`), s...), '"') }
	if asKey {
		doc = append(append(append(append([]byte(`{`), quoted(s1)...), []byte(`:1,`)...), quoted(s2)...), []byte(`:2}`)...)
	} else {
		doc = append(append(append(append([]byte(`[`), quoted(s1)...), ','), quoted(s2)...), ']')
	}
	doc2 := []byte(`["\nQQQQQQQQQQQQQQQQQQQQQQQQQQQQQQQQQQQQQQQQQQQQQQQQQQQQQQQQQQQQQQQQQQQQQQQQQQQQQQ"]`)
	var rec ev.KeepRecorder
	p := json.NewParser(&rec)
	cut := 0
	if h.Choose("split", 0, 1) == 1 {
		cut = h.Choose("cut", 1, len(doc)-1)
	}
	feed := func(b []byte) error {
		chunk := cloneBytes(b)
		_, e := p.Write(chunk)
		for i := range chunk {
			chunk[i] = 0xAA
		}
		return e
	}
	err := feed(doc[:cut])
	if err == nil {
		err = feed(doc[cut:])
	}
	h.Assert("doc1-parsed", err == nil)
	h.Assert("doc2-parsed", feed(doc2) == nil)
	h.Assert("strings-seen", len(rec.Kept) == 3)
	if len(rec.Kept) == 3 {
		h.Assert("retained-1", rt.BytesEq([]byte(rec.Kept[0]), append([]byte{'\t'}, s1...)))
		h.Assert("retained-2", rt.BytesEq([]byte(rec.Kept[1]), append([]byte{'\t'}, s2...)))
	}
}
