package props

import (
	"bytes"
	"encoding/binary"
	"errors"
	"fmt"
	"math"
	"math/bits"
	"sort"
	"strconv"
	"strings"
	"sync"
	"unicode"
	"unicode/utf8"

	"verif/harness/rt"
)

// SELFTEST_Std (translator validation): standard-library and language features that
// a change to the library may plausibly start using. Each case computes something
// from symbolic input and observes it; the check replays every path natively and
// compares (a mismatch or an "unsupported" here is an engine gap to close).

type stdErr struct{ code int }

func (e *stdErr) Error() string { return "std" }

var stdPool = sync.Pool{New: func() interface{} { return new([16]byte) }}

type stdStack[T any] struct{ items []T }

func (s *stdStack[T]) push(v T) { s.items = append(s.items, v) }
func (s *stdStack[T]) pop() T {
	v := s.items[len(s.items)-1]
	s.items = s.items[:len(s.items)-1]
	return v
}

func stdMax[T int | int8 | uint64](a, b T) T {
	if a > b {
		return a
	}
	return b
}

func SELFTEST_Std(h *rt.H) {
	x := h.U8("x")
	y := h.U8("y")
	switch h.Choose("case", 0, 27) {
	case 0: // strings.Builder
		var sb strings.Builder
		sb.WriteByte(x)
		sb.WriteString("ab")
		sb.Write([]byte{y})
		h.ObserveBytes("out", []byte(sb.String()))
		h.ObserveU64("len", uint64(sb.Len()))
	case 1: // bytes.Buffer
		var bb bytes.Buffer
		bb.WriteByte(x)
		bb.WriteString("cd")
		bb.Write([]byte{y, y})
		b, _ := bb.ReadByte()
		h.ObserveU64("first", uint64(b))
		h.ObserveBytes("rest", bb.Bytes())
	case 2: // sort.Slice / sort.Ints with concrete data, symbolic pivot
		a := []int{5, 1, 4, int(x % 4), 3}
		sort.Ints(a)
		for _, v := range a {
			h.ObserveU64("v", uint64(v))
		}
	case 3: // strconv formatting of small symbolic numbers
		h.Assume(x < 10)
		h.ObserveBytes("itoa", []byte(strconv.Itoa(int(x))))
		h.ObserveBytes("appendint", strconv.AppendInt(nil, -int64(x), 10))
		h.ObserveBytes("formatuint", []byte(strconv.FormatUint(uint64(x), 16)))
	case 4: // strconv.Quote / AppendQuote on concrete text
		h.ObserveBytes("quote", []byte(strconv.Quote("a\"b\n")))
	case 5: // strings helpers
		s := string([]byte{'A', x, 'c'})
		h.Assume(x >= 'a' && x <= 'z')
		h.ObserveBytes("upper", []byte(strings.ToUpper(s)))
		h.ObserveBool("has", strings.HasPrefix(s, "A") && strings.Contains(s, "c"))
		h.ObserveU64("idx", uint64(strings.IndexByte(s, 'c')))
		parts := strings.Split("a,b,c", ",")
		h.ObserveU64("parts", uint64(len(parts)))
		h.ObserveBytes("trim", []byte(strings.TrimSpace("  q ")))
	case 6: // sync.Pool
		p := stdPool.Get().(*[16]byte)
		p[0] = x
		v := p[0]
		stdPool.Put(p)
		h.ObserveU64("v", uint64(v))
	case 7: // encoding/binary put/get
		var b [8]byte
		binary.BigEndian.PutUint32(b[:], uint32(x)<<8|uint32(y))
		binary.LittleEndian.PutUint16(b[4:], uint16(x))
		h.ObserveBytes("b", b[:])
		h.ObserveU64("r", uint64(binary.BigEndian.Uint16(b[2:])))
	case 8: // errors.Is / As / wrapping
		base := &stdErr{code: int(x)}
		w := fmt.Errorf("wrap: %w", base)
		var se *stdErr
		h.ObserveBool("is", errors.Is(w, base))
		h.ObserveBool("as", errors.As(w, &se) && se.code == int(x))
		h.ObserveBool("unwrap", errors.Unwrap(w) == error(base))
	case 9: // math helpers
		f := float64(x) / 4
		h.ObserveU64("floor", uint64(math.Floor(f)))
		h.ObserveBool("isnan", math.IsNaN(f))
		h.ObserveBool("isinf", math.IsInf(f, 0))
		h.ObserveU64("bits", math.Float64bits(f))
		h.ObserveU64("trunc", uint64(math.Trunc(f)))
		h.ObserveBool("signbit", math.Signbit(-f))
	case 10: // math/bits
		h.ObserveU64("lz", uint64(bits.LeadingZeros8(x)))
		h.ObserveU64("len", uint64(bits.Len64(uint64(x))))
		h.ObserveU64("ones", uint64(bits.OnesCount8(x)))
		h.ObserveU64("rev", uint64(bits.ReverseBytes16(uint16(x)<<8|uint16(y))))
	case 11: // generics
		var s stdStack[uint8]
		s.push(x)
		s.push(y)
		h.ObserveU64("pop", uint64(s.pop()))
		h.ObserveU64("max", uint64(stdMax(int(x), int(y))))
	case 12: // defer / recover
		r := func() (res int) {
			defer func() {
				if e := recover(); e != nil {
					res = -1
				}
			}()
			a := []int{1, 2}
			return a[int(x%4)]
		}()
		h.ObserveU64("r", uint64(r))
	case 13: // labelled loops, switch fallthrough, goto-free control flow
		n := 0
	outer:
		for i := 0; i < 4; i++ {
			for j := 0; j < 4; j++ {
				if uint8(i*4+j) == x%16 {
					break outer
				}
				n++
			}
		}
		switch {
		case n > 100:
			n = 0
		case n > 5:
			n += 100
			fallthrough
		default:
			n++
		}
		h.ObserveU64("n", uint64(n))
	case 14: // copy between string and bytes, append string..., multi-dim slices
		b := make([]byte, 4)
		c := copy(b, "xyz")
		b = append(b[:c], "tail"...)
		b[0] = x
		grid := [][]byte{{1, 2}, {3, x}}
		h.ObserveBytes("b", b)
		h.ObserveU64("g", uint64(grid[1][1]))
		h.ObserveBytes("s3", b[1:3:4])
	case 15: // maps with struct keys / delete / len / comma-ok
		type k struct{ a, b uint8 }
		m := map[k]int{{1, 2}: 3}
		m[k{x % 2, 2}] = 7
		delete(m, k{0, 2})
		_, ok := m[k{1, 2}]
		h.ObserveU64("len", uint64(len(m)))
		h.ObserveBool("ok", ok)
	case 16: // utf8 / unicode helpers
		s := []byte{x, y}
		h.ObserveBool("valid", utf8.Valid(s))
		r, sz := utf8.DecodeRune(s)
		h.ObserveU64("r", uint64(r))
		h.ObserveU64("sz", uint64(sz))
		h.ObserveBool("upper", unicode.IsUpper(rune(x)))
		h.ObserveBool("digit", unicode.IsDigit(rune(x)))
		h.ObserveU64("runelen", uint64(utf8.RuneLen(rune(x)<<4)))
		h.ObserveBytes("append", utf8.AppendRune(nil, rune(x)<<3))
	case 17: // closures capturing loop variables, method values, func values in maps
		fs := map[string]func(uint8) uint8{"inc": func(v uint8) uint8 { return v + 1 }}
		var acc uint8
		for i := uint8(0); i < 3; i++ {
			i := i
			f := func() { acc += i + x }
			f()
		}
		h.ObserveU64("acc", uint64(fs["inc"](acc)))
	case 18: // bytes helpers
		b := []byte{x, 'b', y}
		h.ObserveBool("eq", bytes.Equal(b, []byte{x, 'b', y}))
		h.ObserveU64("idx", uint64(bytes.IndexByte(b, 'b')))
		h.ObserveBool("pre", bytes.HasPrefix(b, []byte{x}))
		h.ObserveBytes("trim", bytes.TrimLeft([]byte("  a"), " "))
	case 19: // integer conversions, shifts by symbolic amounts, signed division
		sx := int8(x)
		h.ObserveU64("shr", uint64(uint8(sx>>(y%8))))
		h.ObserveU64("shl", uint64(x<<(y%9)))
		if y != 0 {
			h.ObserveU64("div", uint64(uint8(sx/int8(y))))
			h.ObserveU64("rem", uint64(uint8(sx%int8(y))))
		}
		h.ObserveU64("wide", uint64(int64(sx)))
		h.ObserveU64("andnot", uint64(x&^y))
	case 20: // fmt.Sprintf with simple verbs on concrete values
		h.ObserveBytes("s", []byte(fmt.Sprintf("%d-%s-%v", 42, "a", true)))
	case 21: // strconv parsing of concrete text
		v, err := strconv.ParseInt("-123", 10, 64)
		u, err2 := strconv.ParseUint("ff", 16, 64)
		h.ObserveU64("v", uint64(v))
		h.ObserveU64("u", u)
		h.ObserveBool("err", err != nil || err2 != nil)
		_, err3 := strconv.Atoi("12a")
		h.ObserveBool("err3", err3 != nil)
	case 22: // struct copy semantics, arrays by value, pointer to array element
		type in struct{ a [2]uint8 }
		v := in{a: [2]uint8{x, y}}
		w := v
		w.a[0]++
		p := &v.a[1]
		*p += 2
		h.ObserveU64("v0", uint64(v.a[0]))
		h.ObserveU64("v1", uint64(v.a[1]))
		h.ObserveU64("w0", uint64(w.a[0]))
	case 23: // interfaces: type switch, embedded interface, comparison
		var i interface{} = x
		var out uint64
		switch t := i.(type) {
		case int:
			out = 1
		case uint8:
			out = uint64(t) + 2
		case fmt.Stringer:
			out = 3
		}
		var e1, e2 error = &stdErr{1}, &stdErr{1}
		h.ObserveU64("out", out)
		h.ObserveBool("neq", e1 != e2)
		h.ObserveBool("eqself", e1 == e1)
	case 24: // strings.Repeat / Join / Fields / Index on concrete text with a symbolic byte
		s := strings.Repeat(string([]byte{x}), 3)
		h.Assume(x >= 'a' && x <= 'z')
		h.ObserveBytes("s", []byte(s))
		h.ObserveBytes("j", []byte(strings.Join([]string{s, "k"}, "-")))
		h.ObserveU64("fields", uint64(len(strings.Fields(" a b  c "))))
		h.ObserveU64("index", uint64(strings.Index("hello", "ll")))
	case 25: // sort.Slice with closure, sort.SearchInts
		a := []uint8{3, x % 8, 1}
		sort.Slice(a, func(i, j int) bool { return a[i] < a[j] })
		h.ObserveBytes("a", a)
		h.ObserveU64("search", uint64(sort.SearchInts([]int{1, 3, 5, 7}, int(x%8))))
	case 26: // min/max builtins, clear
		m := map[int]int{1: 1}
		clear(m)
		h.ObserveU64("min", uint64(min(x, y)))
		h.ObserveU64("max", uint64(max(x, y, 7)))
		h.ObserveU64("len", uint64(len(m)))
	case 27: // sync.Mutex / Once / atomic-free counters
		var mu sync.Mutex
		var once sync.Once
		n := 0
		for i := 0; i < 2; i++ {
			mu.Lock()
			once.Do(func() { n += int(x) })
			n++
			mu.Unlock()
		}
		h.ObserveU64("n", uint64(n))
	}
}
