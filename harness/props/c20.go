package props

import (
	structform "github.com/elastic/go-structform"
	"github.com/elastic/go-structform/gotype"

	"verif/harness/rt"
)

// KEYCACHE (C20): an unfolder with EnableKeyCache(cap) unfolds one or two object
// documents whose keys are delivered by reference (buffers overwritten after each
// event) into map targets; the result equals the result of an unfolder without
// cache. Keys are symbolic single bytes (plus one two-byte key), so hits, misses,
// evictions and re-insertion after eviction all occur on some path. LONGKEY=n: the
// last key has n bytes; REENABLE=1: EnableKeyCache is called again between the two
// documents with a second symbolic capacity.
func KEYCACHE(h *rt.H) {
	capacity := h.Choose("cap", h.Param("MINCAP", 0), h.Param("CAP", 3))
	nk := h.Param("KEYS", 4)
	keys := make([][]byte, nk)
	vals := make([]int8, nk)
	for i := range keys {
		n := 1
		if i == nk-1 && h.Param("LONGKEY", 1) >= 1 {
			n = 2
		}
		keys[i] = h.Bytes("k", n)
		if l := h.Param("LONGKEY", 1); i == nk-1 && l > 2 {
			// LONGKEY=n > 2: the last key is n bytes long (two symbolic bytes, then a pattern)
			for j := 2; j < l; j++ {
				keys[i] = append(keys[i], byte('a'+j%26))
			}
		}
		vals[i] = int8(h.U8("v"))
	}
	split := h.Choose("split", 1, nk) // keys[:split] in document 1, the rest in document 2
	typed := h.Choose("typedTarget", 0, 1) == 1

	type result struct {
		any  [2]map[string]interface{}
		ints [2]map[string]int
		err  error
	}
	run := func(cache bool) *result {
		r := &result{}
		u, err := gotype.NewUnfolder(nil)
		if err != nil {
			r.err = err
			return r
		}
		if cache {
			u.EnableKeyCache(capacity)
		}
		ext := structform.EnsureExtVisitor(u)
		// SHAREDBUF=1: all keys are delivered from ONE buffer that is rewritten for every
		// key (what a parser reading documents into the same buffer does) and scribbled
		// at the very end; otherwise every key has its own buffer, scribbled right away
		shared := h.Param("SHAREDBUF", 0) == 1
		sbuf := make([]byte, 2+h.Param("LONGKEY", 1))
		defer func() {
			for j := range sbuf {
				sbuf[j] = 0xEE
			}
		}()
		for d := 0; d < 2; d++ {
			lo, hi := 0, split
			if d == 1 {
				lo, hi = split, nk
			}
			if lo == hi {
				continue
			}
			if d == 1 && cache && h.Param("REENABLE", 0) == 1 {
				// the cache is configured again between two documents (an unfolder taken
				// from a pool and set up anew), possibly with another capacity
				u.EnableKeyCache(h.Choose("cap2", 0, h.Param("CAP", 3)))
			}
			if typed {
				r.err = u.SetTarget(&r.ints[d])
			} else {
				r.err = u.SetTarget(&r.any[d])
			}
			if r.err != nil {
				return r
			}
			if r.err = ext.OnObjectStart(hi-lo, structform.AnyType); r.err != nil {
				return r
			}
			for i := lo; i < hi; i++ {
				var buf []byte
				if shared {
					buf = sbuf[:copy(sbuf, keys[i])]
				} else {
					buf = cloneBytes(keys[i])
				}
				r.err = ext.OnKeyRef(buf)
				if !shared {
					for j := range buf {
						buf[j] = 0xEE
					}
				}
				if r.err == nil {
					r.err = ext.OnInt8(vals[i])
				}
				if r.err != nil {
					return r
				}
			}
			if r.err = ext.OnObjectFinished(); r.err != nil {
				return r
			}
		}
		return r
	}
	plain := run(false)
	cached := run(true)
	h.Assert("plain-no-error", plain.err == nil)
	h.Assert("cached-no-error", cached.err == nil)
	same := true
	for d := 0; d < 2; d++ {
		lo, hi := 0, split
		if d == 1 {
			lo, hi = split, nk
		}
		if typed {
			if len(plain.ints[d]) != len(cached.ints[d]) {
				same = false
			}
		} else if len(plain.any[d]) != len(cached.any[d]) {
			same = false
		}
		for i := lo; i < hi; i++ {
			k := string(keys[i])
			if typed {
				a, okA := plain.ints[d][k]
				b, okB := cached.ints[d][k]
				same = rt.And(same, okA && okB && a == b)
			} else {
				a, okA := plain.any[d][k]
				b, okB := cached.any[d][k]
				x, isA := a.(int8)
				y, isB := b.(int8)
				same = rt.And(same, okA && okB && isA && isB && x == y)
			}
		}
	}
	h.Assert("same-as-uncached", same)
}
