package props

import (
	"io"

	"verif/harness/ev"
	"verif/harness/gen"
	"verif/harness/rt"
)

// reuseEncoder (C17): an encoder that has written document A writes probe B exactly
// as a fresh encoder does.
func reuseEncoder(h *rt.H, c *codec) {
	cfg := genCfg(h)
	cfg.ASCII, cfg.Small = true, true
	a := gen.Value(h, cfg)
	cfg2 := genCfg(h)
	cfg2.ASCII, cfg2.Small = true, true
	b := gen.Value(h, cfg2)
	extA := h.Choose("extA", -1, numExtEvents-1) // -1: no extended event in the history
	known := h.Choose("known", 0, 1) == 1
	out := &sink{}
	enc := newExtEncoder(c, out)
	err := emit(a, enc, known)
	if extA >= 0 && err == nil {
		o := extOptsFor(c)
		o.maxUint, o.maxAbs = 9, 9
		_, err = extEvent(h, extA, h.Choose("nA", 0, 2), enc, o)
	}
	h.Assert("history-encoded", err == nil)
	mark := len(out.B)
	err = emit(b, enc, known)
	h.Assert("probe-encoded", err == nil)
	fresh := &sink{}
	err = emit(b, newExtEncoder(c, fresh), known)
	h.Assert("fresh-encoded", err == nil)
	h.Assert("same-output", rt.BytesEq(out.B[mark:], fresh.B))
	h.ObserveBytes("probe", fresh.B)
}

func REUSE_Enc_cborl(h *rt.H)  { reuseEncoder(h, cborCodec) }
func REUSE_Enc_ubjson(h *rt.H) { reuseEncoder(h, ubjsonCodec) }
func REUSE_Enc_json(h *rt.H)   { reuseEncoder(h, jsonCodec) }

// reuseParser (C17): a parser instance that has completely parsed document A
// (Parser.Parse) reports probe B exactly as a fresh parser; same for the pull
// decoder over the concatenation A B.
func reuseParser(h *rt.H, c *codec) {
	a := shapedDoc(h, c)
	b := shapedDoc(h, c)
	var fresh ev.Recorder
	errF := c.parse(cloneBytes(b), &fresh)
	h.Assert("probe-accepted", errF == nil)

	var rec ev.Recorder
	p := c.newParser(&rec)
	errA := p.Parse(cloneBytes(a))
	h.Assert("history-accepted", errA == nil)
	mark := len(rec.Events)
	errB := p.Parse(cloneBytes(b))
	h.Assert("reused-accepted", errB == nil)
	h.Assert("same-events", ev.Equal(rec.Events[mark:], fresh.Events))

	// pull decoder: Next, Next on "A B"
	var drec ev.Recorder
	stream := cloneBytes(a)
	if c == jsonCodec {
		stream = append(stream, ' ')
	}
	stream = append(stream, b...)
	dec := c.bytesDec(stream, &drec)
	err1 := dec.Next()
	h.Assert("decoder-first", err1 == nil)
	dmark := len(drec.Events)
	err2 := dec.Next()
	h.Assert("decoder-second", err2 == nil || err2 == io.EOF)
	// a trailing value may only be complete once the input ends: allow one more call
	if len(drec.Events)-dmark < len(fresh.Events) {
		dec.Next()
	}
	h.Assert("decoder-same-events", ev.Equal(drec.Events[dmark:], fresh.Events))
	h.ObserveBytes("probe-events", ev.Serialize(fresh.Events))
}

func REUSE_Parse_cborl(h *rt.H)  { reuseParser(h, cborCodec) }
func REUSE_Parse_ubjson(h *rt.H) { reuseParser(h, ubjsonCodec) }
func REUSE_Parse_json(h *rt.H)   { reuseParser(h, jsonCodec) }
