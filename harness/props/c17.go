package props

import (
	"io"

	"github.com/elastic/go-structform/gotype"

	"verif/harness/ev"
	"verif/harness/gen"
	"verif/harness/rt"
)

// reuseEncoder (C17): an encoder that has written document A writes probe B exactly
// as a fresh encoder does.
func reuseEncoder(h *rt.H, c *codec) {
	cfg := genCfg(h)
	cfg.ASCII, cfg.Small = true, true
	a := gen.Value(h, cfg)
	cfg2 := genCfg(h)
	cfg2.ASCII, cfg2.Small = true, true
	b := gen.Value(h, cfg2)
	extA := h.Choose("extA", -1, numExtEvents-1) // -1: no extended event in the history
	known := h.Choose("known", 0, 1) == 1
	out := &sink{}
	enc := newExtEncoder(c, out)
	err := emit(a, enc, known)
	if extA >= 0 && err == nil {
		o := extOptsFor(c)
		o.maxUint, o.maxAbs = 9, 9
		_, err = extEvent(h, extA, h.Choose("nA", 0, 2), enc, o)
	}
	h.Assert("history-encoded", err == nil)
	mark := len(out.B)
	err = emit(b, enc, known)
	h.Assert("probe-encoded", err == nil)
	fresh := &sink{}
	err = emit(b, newExtEncoder(c, fresh), known)
	h.Assert("fresh-encoded", err == nil)
	h.Assert("same-output", rt.BytesEq(out.B[mark:], fresh.B))
	h.ObserveBytes("probe", fresh.B)
}

func REUSE_Enc_cborl(h *rt.H)  { reuseEncoder(h, cborCodec) }
func REUSE_Enc_ubjson(h *rt.H) { reuseEncoder(h, ubjsonCodec) }
func REUSE_Enc_json(h *rt.H)   { reuseEncoder(h, jsonCodec) }

// reuseParser (C17): a parser instance that has completely parsed document A
// (Parser.Parse) reports probe B exactly as a fresh parser; same for the pull
// decoder over the concatenation A B.
func reuseParser(h *rt.H, c *codec) {
	a := shapedDoc(h, c)
	b := shapedDoc(h, c)
	var fresh ev.Recorder
	errF := c.parse(cloneBytes(b), &fresh)
	h.Assert("probe-accepted", errF == nil)

	var rec ev.Recorder
	p := c.newParser(&rec)
	errA := p.Parse(cloneBytes(a))
	h.Assert("history-accepted", errA == nil)
	mark := len(rec.Events)
	errB := p.Parse(cloneBytes(b))
	h.Assert("reused-accepted", errB == nil)
	h.Assert("same-events", ev.Equal(rec.Events[mark:], fresh.Events))

	// pull decoder: Next, Next on "A B"
	var drec ev.Recorder
	stream := cloneBytes(a)
	if c == jsonCodec {
		stream = append(stream, ' ')
	}
	stream = append(stream, b...)
	dec := c.bytesDec(stream, &drec)
	err1 := dec.Next()
	h.Assert("decoder-first", err1 == nil)
	dmark := len(drec.Events)
	err2 := dec.Next()
	h.Assert("decoder-second", err2 == nil || err2 == io.EOF)
	// a trailing value may only be complete once the input ends: allow one more call
	if len(drec.Events)-dmark < len(fresh.Events) {
		dec.Next()
	}
	h.Assert("decoder-same-events", ev.Equal(drec.Events[dmark:], fresh.Events))
	h.ObserveBytes("probe-events", ev.Serialize(fresh.Events))
}

func REUSE_Parse_cborl(h *rt.H)  { reuseParser(h, cborCodec) }
func REUSE_Parse_ubjson(h *rt.H) { reuseParser(h, ubjsonCodec) }
func REUSE_Parse_json(h *rt.H)   { reuseParser(h, jsonCodec) }

type itIn struct{ X int8 }

type itInlinePtr struct {
	A int8
	P *itIn `struct:",inline"`
}

type itInline struct {
	In itIn `struct:",inline"`
	B  int8
}

type itRegular struct {
	In itIn
	P  *itIn
	S  []*itIn
}

// itValue: a small family of values whose types share itIn / *itIn in regular and
// inlined positions (the iterator caches compiled folders per type).
func itValue(h *rt.H, k int, x int8) interface{} {
	in := &itIn{X: x}
	switch k {
	case 0:
		return itIn{X: x}
	case 1:
		return in
	case 2:
		return itInlinePtr{A: 1, P: in}
	case 3:
		return itInlinePtr{A: 1}
	case 4:
		return itInline{In: itIn{X: x}, B: 2}
	case 5:
		return itRegular{In: itIn{X: x}, P: in, S: []*itIn{in, nil}}
	case 6:
		return map[string]*itIn{"k": in}
	case 8: // inlined interface members holding different dynamic types
		return inlIfaceT{A: x, I: itIn{X: x}, Z: 1}
	case 9:
		return inlIfaceT{A: x, I: map[string]int8{"m": x}, Z: 1}
	case 10:
		return inlIfaceT{A: x, I: &tIn{X: x}, Z: 1}
	case 11:
		return struct{ I interface{} }{valF{x}}
	case 12:
		return struct{ I interface{} }{&ptrF{x}}
	}
	return []interface{}{in, itIn{X: x}}
}

// REUSE_Iterator (C17): an Iterator that has folded value A folds probe B exactly as
// a fresh Iterator does.
func REUSE_Iterator(h *rt.H) {
	a, b := h.Choose("A", 0, 12), h.Choose("B", 0, 12)
	x, y := int8(h.U8("x")), int8(h.U8("y"))
	var rec ev.Recorder
	it, err := gotype.NewIterator(&rec)
	h.Assert("iterator-created", err == nil)
	h.Assert("history-folded", it.Fold(itValue(h, a, x)) == nil)
	mark := len(rec.Events)
	h.Assert("probe-folded", it.Fold(itValue(h, b, y)) == nil)
	var fresh ev.Recorder
	h.Assert("fresh-folded", gotype.Fold(itValue(h, b, y), &fresh) == nil)
	h.Assert("same-events", ev.Equal(rec.Events[mark:], fresh.Events))
	h.Assert("contract", ev.Contract(fresh.Events) == "" && ev.Contract(rec.Events[mark:]) == "")
	h.ObserveBytes("probe-events", ev.Serialize(fresh.Events))
}

// REUSE_Unfolder (C17): an Unfolder that has completely unfolded document A into one
// target builds, after SetTarget, the same value from document B as a fresh one.
func REUSE_Unfolder(h *rt.H) {
	cfg := genCfg(h)
	cfg.Small = true
	a := gen.Value(h, cfg)
	cfg2 := genCfg(h)
	cfg2.Small = true
	b := gen.Value(h, cfg2)
	distinctKeys(h, a)
	distinctKeys(h, b)
	known := h.Choose("known", 0, 1) == 1
	var t1, t2, t3 interface{}
	u, err := gotype.NewUnfolder(&t1)
	h.Assert("unfolder-created", err == nil)
	h.Assert("history-unfolded", emit(a, u, known) == nil)
	h.Assert("settarget", u.SetTarget(&t2) == nil)
	h.Assert("probe-unfolded", emit(b, u, known) == nil)
	u2, err := gotype.NewUnfolder(&t3)
	h.Assert("fresh-created", err == nil)
	h.Assert("fresh-unfolded", emit(b, u2, known) == nil)
	h.Assert("same-value", matches(t2, b) && matches(t3, b) && matches(t1, a))
}
