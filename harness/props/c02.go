package props

import (
	"verif/harness/ev"
	"verif/harness/gen"
	"verif/harness/rt"
)

// chunkCheck: parser output must not depend on chunking.
//
//	run A: one-shot Parse of the whole input
//	run B: ParseReader with a reader that delivers the chunks of the cut mask
//	run C: a parser fed with Write per chunk (plus one empty write); without an end
//	       of input its events must be a prefix of A's and it may only fail if A fails
func chunkCheck(h *rt.H, c *codec, doc []byte, cuts []bool) {
	var a ev.Recorder
	errA := c.parse(cloneBytes(doc), &a)

	var b ev.Recorder
	_, errB := c.parseReader(newChunkReader(h, doc, cuts), &b)
	h.Assert("verdict", (errA == nil) == (errB == nil))
	if errA == nil && errB == nil {
		h.Assert("events", ev.Equal(a.Events, b.Events))
		// C09: also the chunked run's stream obeys the visitor contract
		h.Assert("contract", ev.Contract(b.Events) == "")
	}

	var w ev.Recorder
	p := c.newParser(&w)
	var errW error
	start := 0
	emptyAt := h.Param("EMPTY", -1)
	for i := 0; i < len(doc) && errW == nil; i++ {
		if i == len(doc)-1 || cuts[i] {
			chunk := cloneBytes(doc[start : i+1])
			if start == emptyAt {
				if _, errW = p.Write(nil); errW != nil {
					break
				}
			}
			_, errW = p.Write(chunk)
			// the chunk is the caller's: a parser reads it and never writes it (C15, C19)
			h.Assert("chunk-unmodified", rt.BytesEq(chunk, doc[start:i+1]))
			// the caller may reuse its buffer as soon as Write returns
			for j := range chunk {
				chunk[j] = 0xAA
			}
			start = i + 1
		}
	}
	if errA == nil {
		h.Assert("write-verdict", errW == nil)
		n := len(w.Events)
		h.Assert("write-events", n <= len(a.Events) && ev.Equal(w.Events, a.Events[:minInt(n, len(a.Events))]))
	}
	h.ObserveBool("errA", errA != nil)
	h.ObserveBytes("eventsA", ev.Serialize(a.Events))
	h.ObserveBytes("eventsB", ev.Serialize(b.Events))
}

func chunkBytes(h *rt.H, c *codec) {
	n := h.Param("N", 3)
	doc := h.Bytes("in", n)
	chunkCheck(h, c, doc, cutMask(h, n))
}

// CHUNK_<codec>: all byte strings of length N x all 2^(N-1) chunkings.
func CHUNK_cborl(h *rt.H)  { chunkBytes(h, cborCodec) }
func CHUNK_ubjson(h *rt.H) { chunkBytes(h, ubjsonCodec) }
func CHUNK_json(h *rt.H)   { chunkBytes(h, jsonCodec) }

// repChoice: the representation choices of a shaped document; a second document of
// the same stream reuses the first one's choices (only the shapes multiply).
type repChoice struct {
	set                            bool
	rep, container, indef, ws, esc int
}

// shapedDoc builds a valid document of the codec from a generated value with
// symbolic scalars and symbolically chosen representation (widths, markers,
// definite/indefinite, counted/typed, whitespace).
func shapedDoc(h *rt.H, c *codec) []byte { return shapedDocRep(h, c, &repChoice{}) }

func shapedDocRep(h *rt.H, c *codec, r *repChoice) []byte {
	v := gen.Value(h, genCfg(h))
	if !r.set {
		r.set = true
		// deep chains (CHAIN): two representation choices instead of five
		maxRep := 4
		if h.Param("CHAIN", 0) > 0 {
			maxRep = 1
		}
		mixc := h.Param("MIXC", 0) == 1
		switch c {
		case cborCodec:
			r.rep = h.Choose("rep", 0, maxRep)
			if !mixc {
				r.indef = h.Choose("indef", 0, 1)
			}
		case ubjsonCodec:
			r.rep = h.Choose("rep", 0, maxRep)
			if !mixc {
				r.container = h.Choose("container", 0, 3)
			}
		default:
			r.ws = h.Choose("ws", 0, maxRep)
			r.esc = h.Choose("esc", 0, h.Param("ESC", 0))
		}
	}
	switch c {
	case cborCodec:
		// REP=0: one width choice per document for lengths and integers; REP=1: the
		// width of every integer is chosen separately
		// MIXC=1: the container style is chosen per container instead of per document
		o := gen.CBOROpts{Width: []int{0, 1, 2, 4, 8}[r.rep], Indef: r.indef == 1, IntW: r.rep, Mixed: h.Param("MIXC", 0) == 1}
		if h.Param("REP", 0) == 1 {
			o.IntW = -1
		}
		return gen.EncodeCBOR(h, v, o, nil)
	case ubjsonCodec:
		m := []byte{'i', 'U', 'I', 'l', 'L'}[r.rep]
		o := gen.UBJOpts{Container: r.container, LenMarker: m, IntMarker: m}
		if o.Container == 3 {
			o.Container, o.Noop = 0, true
		}
		if h.Param("MIXC", 0) == 1 {
			o.Container = -1
		}
		if h.Param("REP", 0) == 1 {
			o.IntMarker = 0
		}
		return gen.EncodeUBJSON(h, v, o, nil)
	}
	return gen.JSONText(h, v, gen.JSONOpts{WS: r.ws, Esc: r.esc}, nil)
}

// chunkShape: a shaped valid document x (every single cut position | all single bytes).
func chunkShape(h *rt.H, c *codec) {
	r := &repChoice{}
	doc := shapedDocRep(h, c, r)
	// DOCS=2: a stream of two documents; the cut positions include the boundary
	if h.Param("DOCS", 1) == 2 {
		if c == jsonCodec {
			doc = append(doc, ' ')
		}
		doc = append(doc, shapedDocRep(h, c, r)...)
	}
	n := len(doc)
	cuts := make([]bool, n)
	// CUTSTEP > 1 (long documents): only every CUTSTEP-th cut position, plus the mode
	// in which every byte is its own chunk
	step := h.Param("CUTSTEP", 1)
	last := (n - 1 + step - 1) / step
	// CUTMAX > 0: cut positions only within the first CUTMAX bytes (headers of long
	// tokens), plus the every-byte mode
	if m := h.Param("CUTMAX", 0); m > 0 && m < last {
		last = m
	}
	pos := h.Choose("cutpos", 0, last) * step // >= n-1 (or the last choice): every byte its own chunk
	if h.Param("CUTMAX", 0) > 0 && pos == last*step {
		pos = n - 1
	}
	if pos >= n-1 {
		for i := range cuts {
			cuts[i] = true
		}
	} else {
		cuts[pos] = true
	}
	chunkCheck(h, c, doc, cuts)
}

func CHUNK_Shape_cborl(h *rt.H)  { chunkShape(h, cborCodec) }
func CHUNK_Shape_ubjson(h *rt.H) { chunkShape(h, ubjsonCodec) }
func CHUNK_Shape_json(h *rt.H)   { chunkShape(h, jsonCodec) }

// CHUNK_JSONLong (C02, C04, C15): a long token (string value or key, L bytes, beyond
// the sizes at which the parser grows, keeps or drops its literal buffer) cut by a
// chunk boundary, followed by further tokens of every kind (key, string, escaped
// string, number) in the same document and by a second document: the chunked run
// reports what the one-shot run reports.
func CHUNK_JSONLong(h *rt.H) {
	L := []int{100, 600, 1100, 4200}[h.Choose("L", 0, h.Param("MAXL", 3))]
	long := make([]byte, L)
	copy(long, letters(h, "s", 1))
	for i := 1; i < L; i++ {
		long[i] = byte('a' + i%26)
	}
	esc := h.Choose("esc", 0, 1) == 1
	if esc {
		long[L/2] = '\\'
		long[L/2+1] = 'n'
	}
	var doc []byte
	q := func(b []byte) []byte { return append(append([]byte{'"'}, b...), '"') }
	switch h.Choose("shape", 0, 2) {
	case 0: // long string value, then key, string, escaped key, number
		doc = append(append([]byte(`{"a":`), q(long)...), []byte(`,"b":"x","c\t":12,"d":"A"}`)...)
	case 1: // long key
		doc = append(append([]byte(`{`), q(long)...), []byte(`:1,"b":[true,"y\n"]}`)...)
	case 2: // long string in an array followed by strings
		doc = append(append([]byte(`[`), q(long)...), []byte(`,"b","c\\",3.5]`)...)
	}
	doc = append(doc, []byte(` {"k":"v"}`)...)
	n := len(doc)
	var cuts []int
	switch h.Choose("cuts", 0, 3) {
	case 0:
		cuts = []int{8}
	case 1:
		cuts = []int{L / 2, L/2 + 1}
	case 2:
		cuts = []int{L / 3, L + 9}
	case 3:
		for i := 512; i < n; i += 512 {
			cuts = append(cuts, i)
		}
	}
	mask := make([]bool, n)
	for _, c := range cuts {
		if c > 0 && c < n {
			mask[c-1] = true
		}
	}
	chunkCheck(h, jsonCodec, doc, mask)
}

// CHUNK_JSONLiteral (C02, C04): null / true / false with one byte replaced by an
// arbitrary byte (so mostly misspelled, sometimes intact), at top level, as array
// element and as member value, followed by a further value; one cut at every
// position, or every byte its own chunk. The chunked runs report what the one-shot
// run reports (a misspelled literal is refused wherever the boundary falls).
func CHUNK_JSONLiteral(h *rt.H) {
	lit := []byte([]string{"null", "true", "false"}[h.Choose("lit", 0, 2)])
	pos := h.Choose("pos", 0, len(lit)-1)
	lit[pos] = h.U8("x")
	var doc []byte
	switch h.Choose("ctx", 0, 3) {
	case 0:
		doc = lit
	case 1:
		doc = append(append([]byte("["), lit...), []byte(",1]")...)
	case 2:
		doc = append(append([]byte(`{"a":`), lit...), []byte(`,"b":2}`)...)
	case 3:
		doc = append(append([]byte("[1, "), lit...), ' ', ']')
	}
	n := len(doc)
	cuts := make([]bool, n)
	if c := h.Choose("cutpos", 0, n-1); c >= n-1 {
		for i := range cuts {
			cuts[i] = true
		}
	} else {
		cuts[c] = true
	}
	chunkCheck(h, jsonCodec, doc, cuts)
}
