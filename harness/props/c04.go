package props

import (
	"verif/harness/ev"
	"verif/harness/ref"
	"verif/harness/rt"
)

// conform compares a parser with its reference decoder on the input in.
func conform(h *rt.H, c *codec, in []byte) {
	want, class, _ := c.refDecode(h, in)
	h.Tag("class." + ref.ClassNames6[class])
	var rec ev.Recorder
	err := c.parse(cloneBytes(in), &rec)
	got := ev.Normalise(rec.Events)
	n := minInt(len(got), len(want))
	switch class {
	case ref.OK:
		h.Assert("accepted", err == nil)
		h.Assert("value", ev.Equal(got, want))
	case ref.Unsupported:
		h.Assert("refused", err != nil)
		h.Assert("no-other-value", len(got) <= len(want) && ev.Equal(got, want[:n]))
	case ref.Malformed:
		h.Assert("rejected", err != nil)
	case ref.IntOverflow:
		// rejected, or widened to a float: never reported as some integer
		if err == nil {
			h.Assert("overflow-not-an-integer", len(got) > len(want) && got[len(want)].K == ev.Float64)
		}
		h.Assert("no-other-value", ev.Equal(got[:n], want[:n]))
	case ref.Truncated:
		// the one-shot Parse knows where the input ends: an unclosed container or an
		// unterminated string is not the structure of a document
		h.Assert("truncated-rejected", err != nil)
		h.Assert("no-other-value", ev.Equal(got[:n], want[:n]))
	}
	if err == nil {
		// C09: whatever input a parser accepts (also where the specification leaves
		// the reading open), its event stream obeys the visitor contract
		h.Assert("contract", ev.Contract(rec.Events) == "")
	}
	h.ObserveBool("err", err != nil)
	h.ObserveBytes("events", ev.Serialize(rec.Events))
}

// C04_Bytes: every byte string of length N against the RFC 8259 reference decoder.
func C04_Bytes(h *rt.H) { conform(h, jsonCodec, h.Bytes("in", h.Param("N", 3))) }

// C04_String: '"' + N symbolic bytes + '"' (escapes, \u sequences, raw UTF-8).
func C04_String(h *rt.H) {
	n := h.Param("N", 3)
	in := append([]byte{'"'}, h.Bytes("s", n)...)
	in = append(in, '"')
	conform(h, jsonCodec, in)
}

// C04_Unicode: "\uXXXX" with four symbolic hex digits followed by K symbolic bytes
// inside the string (surrogates, pairs, followed by any byte).
func C04_Unicode(h *rt.H) {
	in := append([]byte{'"', '\\', 'u'}, h.Bytes("x", 4)...)
	in = append(in, h.Bytes("t", h.Param("K", 1))...)
	in = append(in, '"')
	conform(h, jsonCodec, in)
}

// C04_Pair: "\udX0Y\udZ0W" with four symbolic hex digits: high+low pairs, lone
// surrogates in either order, non-surrogates in the D000 block.
func C04_Pair(h *rt.H) {
	x, y := h.Bytes("x", 2), h.Bytes("y", 2)
	in := []byte{'"', '\\', 'u', 'd', x[0], '0', x[1], '\\', 'u', 'd', y[0], '0', y[1], '"'}
	conform(h, jsonCodec, in)
}

// C04_EscapeThenUTF8: a simple escape followed by a symbolic multi-byte sequence.
func C04_EscapeThenUTF8(h *rt.H) {
	e := []byte{'"', '\\', '/', 'b', 'f', 'n', 'r', 't'}[h.Choose("esc", 0, 7)]
	in := append([]byte{'"', '\\', e}, h.Bytes("u", h.Param("N", 2))...)
	in = append(in, '"')
	conform(h, jsonCodec, in)
}

// C04_IntLiteral: [-] + K symbolic digits: int64 / uint64 boundaries and overflow.
func C04_IntLiteral(h *rt.H) {
	k := h.Param("K", 3)
	var in []byte
	if h.Choose("neg", 0, 1) == 1 {
		in = append(in, '-')
	}
	d := h.Bytes("d", k)
	for i, c := range d {
		h.Assume(c >= '0' && c <= '9')
		if i == 0 && k > 1 {
			h.Assume(c != '0')
		}
	}
	in = append(in, d...)
	conform(h, jsonCodec, in)
}

// C04_Tokens: sequences of K tokens chosen from a small alphabet, with optional
// whitespace: accepted iff the reference grammar accepts.
func C04_Tokens(h *rt.H) {
	k := h.Param("K", 4)
	toks := []string{"[", "]", "{", "}", ":", ",", "1", `"a"`, "true", " "}
	var in []byte
	// PRE=1: the tokens follow an opening that puts the parser inside containers
	// (after a member, after a comma, nested)
	if h.Param("PRE", 0) == 1 {
		ps := contextPrefixes(jsonCodec)
		in = append(in, ps[h.Choose("prefix", 0, len(ps)-1)]...)
	}
	for i := 0; i < k; i++ {
		in = append(in, toks[h.Choose("tok", 0, len(toks)-1)]...)
	}
	conform(h, jsonCodec, in)
}

// C06_Bytes / C05 variants use the same comparison.
func C06_Bytes(h *rt.H) { conform(h, ubjsonCodec, h.Bytes("in", h.Param("N", 3))) }

// SHAPE_<codec>: shaped valid documents (see shapedDoc) against the reference decoder.
func SHAPE_cborl(h *rt.H)  { conform(h, cborCodec, shapedDoc(h, cborCodec)) }
func SHAPE_ubjson(h *rt.H) { conform(h, ubjsonCodec, shapedDoc(h, ubjsonCodec)) }
func SHAPE_json(h *rt.H)   { conform(h, jsonCodec, shapedDoc(h, jsonCodec)) }
