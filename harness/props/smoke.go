package props

import (
	"verif/harness/ev"
	"verif/harness/rt"

	"github.com/elastic/go-structform/cborl"
)

// SMOKE_CborBytes: N symbolic bytes into cborl.Parse; no assertion, monitors only.
func SMOKE_CborBytes(h *rt.H) {
	n := h.Param("N", 2)
	in := h.Bytes("in", n)
	var r ev.Recorder
	err := cborl.Parse(in, &r)
	h.ObserveBool("err", err != nil)
	h.ObserveBytes("events", ev.Serialize(r.Events))
}
