package props

import (
	structform "github.com/elastic/go-structform"
	"github.com/elastic/go-structform/gotype"

	"verif/harness/rt"
)

// User-defined unfolders (gotype.Unfolders, UnfoldState, Expander): targets whose
// value is assigned by user code that the unfolder calls with converted primitives
// or hands the event stream to.

type uhold[X primT] struct {
	v X
	n int8
}

type uouter[X primT] struct {
	A uhold[X]
	B *uhold[X]
	L []uhold[X]
	M map[string]uhold[X]
	Q []*uhold[X]
	R map[string]*uhold[X]
	N int8
}

// userPrim: a primitive unfolder func(*uhold[X], X) error registered for uhold[X];
// deliver sends one matching event; the holder sits at top level, in a struct field,
// behind a pointer, in a slice and in a map; it must be called exactly once per
// value with the converted value.
func userPrim[X primT](h *rt.H, deliver func(structform.ExtVisitor) error, want X) {
	fn := func(to *uhold[X], v X) error {
		to.v = v
		to.n++
		return nil
	}
	var err error
	step := func(e error) {
		if err == nil {
			err = e
		}
	}
	if h.Choose("top", 0, 1) == 1 {
		var top uhold[X]
		u, e := gotype.NewUnfolder(&top, gotype.Unfolders(fn))
		h.Assert("unfolder-created", e == nil)
		if e != nil {
			return
		}
		step(deliver(structform.EnsureExtVisitor(u)))
		h.Assert("no-error", err == nil)
		h.Assert("value", rt.And(top.v == want, top.n == 1))
		return
	}
	o := uouter[X]{N: 9}
	u, e := gotype.NewUnfolder(&o, gotype.Unfolders(fn))
	h.Assert("unfolder-created", e == nil)
	if e != nil {
		return
	}
	v := structform.EnsureExtVisitor(u)
	step(v.OnObjectStart(-1, structform.AnyType))
	step(v.OnKey("a"))
	step(deliver(v))
	step(v.OnKey("b"))
	step(deliver(v))
	step(v.OnKey("l"))
	step(v.OnArrayStart(2, structform.AnyType))
	step(deliver(v))
	step(deliver(v))
	step(v.OnArrayFinished())
	step(v.OnKey("m"))
	step(v.OnObjectStart(1, structform.AnyType))
	step(v.OnKey("k"))
	step(deliver(v))
	step(v.OnObjectFinished())
	step(v.OnKey("q"))
	step(v.OnArrayStart(1, structform.AnyType))
	step(deliver(v))
	step(v.OnArrayFinished())
	step(v.OnKey("r"))
	step(v.OnObjectStart(1, structform.AnyType))
	step(v.OnKey("k"))
	step(deliver(v))
	step(v.OnObjectFinished())
	step(v.OnKey("n"))
	step(v.OnInt8(3))
	step(v.OnObjectFinished())
	h.Assert("no-error", err == nil)
	ok := o.B != nil && len(o.L) == 2 && len(o.M) == 1 && o.N == 3 && len(o.Q) == 1 && o.Q[0] != nil && len(o.R) == 1 && o.R["k"] != nil
	if ok {
		one := func(x uhold[X]) bool { return rt.And(x.v == want, x.n == 1) }
		ok = rt.And(rt.And(one(o.A), one(*o.B)), rt.And(rt.And(one(o.L[0]), one(o.L[1])), one(o.M["k"])))
		ok = rt.And(ok, rt.And(one(*o.Q[0]), one(*o.R["k"])))
	}
	h.Assert("value", ok)
}

// UNFOLD_UserPrim (C13, C14): primitive user unfolders for bool, string, the two float
// and the ten integer parameter types x the event kinds that convert into them.
func UNFOLD_UserPrim(h *rt.H) {
	x := h.U64("x")
	k := h.Choose("event", 0, 10) // integer event kinds of callScalar
	val, big := intValueOf(k, x)
	ints := func(v structform.ExtVisitor) error { return callScalar(k, x, v) }
	switch h.Choose("param", 0, 13) {
	case 8:
		h.Assume(!big)
		userPrim(h, ints, int(val))
	case 9:
		h.Assume(!big && val >= -32768 && val <= 32767)
		userPrim(h, ints, int16(val))
	case 10:
		h.Assume(!big && val >= -(1<<31) && val < 1<<31)
		userPrim(h, ints, int32(val))
	case 11:
		h.Assume(big || val >= 0)
		userPrim(h, ints, uint(val))
	case 12:
		h.Assume(!big && val >= 0 && val <= 255)
		userPrim(h, ints, uint8(val))
	case 13:
		h.Assume(!big && val >= 0 && val < 1<<32)
		userPrim(h, ints, uint32(val))
	case 0:
		userPrim(h, func(v structform.ExtVisitor) error { return v.OnBool(x&1 == 1) }, x&1 == 1)
	case 1:
		sb := []byte{byte(x), 'q'}
		byRef := h.Choose("byRef", 0, 1) == 1
		userPrim(h, func(v structform.ExtVisitor) error {
			if !byRef {
				return v.OnString(string(sb))
			}
			buf := cloneBytes(sb)
			err := v.OnStringRef(buf)
			buf[0], buf[1] = 0xEE, 0xEE
			return err
		}, string(sb))
	case 2:
		h.Assume(!big && val >= -128 && val <= 127)
		userPrim(h, ints, int8(val))
	case 3:
		h.Assume(!big)
		userPrim(h, ints, val)
	case 4:
		h.Assume(!big && val >= 0 && val <= 65535)
		userPrim(h, ints, uint16(val))
	case 5:
		h.Assume(big || val >= 0)
		userPrim(h, ints, uint64(val))
	case 6:
		h.Assume(!big && val >= -(1<<12) && val <= 1<<12) // exactly representable (small range: the int -> float queries are slow)
		userPrim(h, ints, float32(val))
	case 7:
		h.Assume(!big && val >= -(1<<12) && val <= 1<<12)
		userPrim(h, ints, float64(val))
	}
}

// userPrimNil: a null where a user primitive unfolder sits. The property does not say
// what a null means for user code, so only this is asserted: no crash, and if the
// user function is called it is called with the zero value, at most once per null,
// and no neighbouring member is disturbed.
func userPrimNil[X primT](h *rt.H) {
	var zero X
	fn := func(to *uhold[X], v X) error {
		to.v = v
		to.n++
		return nil
	}
	o := uouter[X]{N: 9}
	u, e := gotype.NewUnfolder(&o, gotype.Unfolders(fn))
	h.Assert("unfolder-created", e == nil)
	if e != nil {
		return
	}
	v := structform.EnsureExtVisitor(u)
	var err error
	step := func(e error) {
		if err == nil {
			err = e
		}
	}
	step(v.OnObjectStart(-1, structform.AnyType))
	step(v.OnKey("a"))
	step(v.OnNil())
	step(v.OnKey("l"))
	step(v.OnArrayStart(2, structform.AnyType))
	step(v.OnNil())
	step(v.OnNil())
	step(v.OnArrayFinished())
	step(v.OnKey("m"))
	step(v.OnObjectStart(1, structform.AnyType))
	step(v.OnKey("k"))
	step(v.OnNil())
	step(v.OnObjectFinished())
	step(v.OnKey("n"))
	step(v.OnInt8(3))
	step(v.OnObjectFinished())
	h.ObserveBool("refused", err != nil)
	if err != nil {
		return
	}
	one := func(x uhold[X]) bool { return x.v == zero && x.n <= 1 }
	ok := one(o.A) && len(o.L) == 2 && one(o.L[0]) && one(o.L[1]) && len(o.M) == 1 && o.N == 3
	if ok {
		x, has := o.M["k"]
		ok = has && one(x)
	}
	h.Assert("null-is-zero", ok)
}

// UNFOLD_UserPrimNum (C13, C14): user primitive unfolders fed across the
// integer/float divide - a float32/float64 event with a small integral value into
// each of the ten integer parameter types, float32 and float64 events into float32
// and float64 parameters (bit-exact where the width matches, exact widening and
// narrowing of a value float32 holds) - and a null for every parameter type.
func UNFOLD_UserPrimNum(h *rt.H) {
	if h.Choose("null", 0, 1) == 1 {
		switch h.Choose("param", 0, 13) {
		case 0:
			userPrimNil[bool](h)
		case 1:
			userPrimNil[string](h)
		case 2:
			userPrimNil[int8](h)
		case 3:
			userPrimNil[int16](h)
		case 4:
			userPrimNil[int32](h)
		case 5:
			userPrimNil[int64](h)
		case 6:
			userPrimNil[int](h)
		case 7:
			userPrimNil[uint8](h)
		case 8:
			userPrimNil[uint16](h)
		case 9:
			userPrimNil[uint32](h)
		case 10:
			userPrimNil[uint64](h)
		case 11:
			userPrimNil[uint](h)
		case 12:
			userPrimNil[float32](h)
		case 13:
			userPrimNil[float64](h)
		}
		return
	}
	x := []int8{-3, 0, 7, 100}[h.Choose("x", 0, 3)]
	fl := func(v structform.ExtVisitor) error { return v.OnFloat32(float32(x)) }
	if h.Choose("f64", 0, 1) == 1 {
		fl = func(v structform.ExtVisitor) error { return v.OnFloat64(float64(x)) }
	}
	t := h.Choose("param", 0, 11)
	h.Assume(x >= 0 || t < 5 || t >= 10)
	switch t {
	case 0:
		userPrim(h, fl, int8(x))
	case 1:
		userPrim(h, fl, int16(x))
	case 2:
		userPrim(h, fl, int32(x))
	case 3:
		userPrim(h, fl, int64(x))
	case 4:
		userPrim(h, fl, int(x))
	case 5:
		userPrim(h, fl, uint8(x))
	case 6:
		userPrim(h, fl, uint16(x))
	case 7:
		userPrim(h, fl, uint32(x))
	case 8:
		userPrim(h, fl, uint64(x))
	case 9:
		userPrim(h, fl, uint(x))
	case 10:
		userPrim(h, fl, float32(x))
	case 11:
		userPrim(h, fl, float64(x))
	}
}

// ---- UnfoldState / Expander: the events of the member are handed to user code

type ulogT struct {
	log  []int16
	strs []string // strings as handed to the state (kept, not copied)
}

type ulogState struct {
	gotype.BaseUnfoldState
	to    *ulogT
	depth int
}

func (s *ulogState) note(ctx gotype.UnfoldCtx, code int16) error {
	s.to.log = append(s.to.log, code)
	if s.depth == 0 {
		ctx.Done()
	}
	return nil
}

func (s *ulogState) OnNil(ctx gotype.UnfoldCtx) error          { return s.note(ctx, -1) }
func (s *ulogState) OnBool(ctx gotype.UnfoldCtx, b bool) error { return s.note(ctx, -2) }
func (s *ulogState) OnString(ctx gotype.UnfoldCtx, v string) error {
	s.to.strs = append(s.to.strs, v)
	return s.note(ctx, 1000+int16(len(v)))
}
func (s *ulogState) OnInt(ctx gotype.UnfoldCtx, v int64) error {
	if v < -128 || v > 127 {
		return s.note(ctx, 5000) // not a value any harness stream carries as a signed event
	}
	return s.note(ctx, int16(v))
}
func (s *ulogState) OnUint(ctx gotype.UnfoldCtx, v uint64) error {
	if v > 127 {
		return s.note(ctx, 6000) // not a value any harness stream carries as an unsigned event
	}
	return s.note(ctx, int16(v))
}
func (s *ulogState) OnFloat(ctx gotype.UnfoldCtx, v float64) error { return s.note(ctx, -3) }
func (s *ulogState) OnArrayStart(ctx gotype.UnfoldCtx, l int, bt structform.BaseType) error {
	s.to.log = append(s.to.log, 2000)
	s.depth++
	return nil
}
func (s *ulogState) OnArrayFinished(ctx gotype.UnfoldCtx) error {
	s.depth--
	return s.note(ctx, 2001)
}
func (s *ulogState) OnObjectStart(ctx gotype.UnfoldCtx, l int, bt structform.BaseType) error {
	s.to.log = append(s.to.log, 3000)
	s.depth++
	return nil
}
func (s *ulogState) OnObjectFinished(ctx gotype.UnfoldCtx) error {
	s.depth--
	return s.note(ctx, 3001)
}
func (s *ulogState) OnKey(ctx gotype.UnfoldCtx, k string) error {
	s.to.log = append(s.to.log, 4000+int16(len(k)))
	return nil
}

// uexpT implements Expander: no registration needed.
type uexpT struct{ ulogT }

func (e *uexpT) Expand() gotype.UnfoldState { return &ulogState{to: &e.ulogT} }

type ustateOuter struct {
	A int8
	L ulogT
	E uexpT
	P *uexpT
	S []uexpT
	Z int8
}

// UNFOLD_UserState (C13, C14): a member handled by a user UnfoldState (registered
// with Unfolders, or through the Expander interface; as field, behind a pointer, as
// slice element) receives exactly the events of its value - a scalar of any kind, or
// a nested array/object with keys - and the members around it are assigned as usual.
func UNFOLD_UserState(h *rt.H) {
	x, y := int8(h.U8("x")), int8(h.U8("y"))
	st := func(to *ulogT) gotype.UnfoldState { return &ulogState{to: to} }
	var o ustateOuter
	u, err := gotype.NewUnfolder(&o, gotype.Unfolders(st))
	h.Assert("unfolder-created", err == nil)
	if err != nil {
		return
	}
	v := structform.EnsureExtVisitor(u)
	step := func(e error) {
		if err == nil {
			err = e
		}
	}
	shape := h.Choose("shape", 0, 6)
	wantStr := ""
	intKind := 0
	if shape == 0 {
		intKind = h.Choose("intkind", 0, 10)
	}
	var want []int16
	value := func() {
		switch shape {
		case 0:
			// every integer event kind; signed kinds carry x (-128..127), unsigned
			// kinds x&0x7f: the user state must see exactly that value
			k := intKind
			val := int64(x)
			if k >= 5 {
				val = int64(x) & 0x7f
			}
			step(callScalar(k, uint64(val), v))
			want = []int16{int16(val)}
		case 1:
			// by value or by reference from a buffer that is scribbled over afterwards
			if h.Choose("strRef", 0, 1) == 1 {
				buf := []byte("abc")
				step(v.OnStringRef(buf))
				buf[0], buf[1], buf[2] = 0xEE, 0xEE, 0xEE
			} else {
				step(v.OnString("abc"))
			}
			want = []int16{1003}
			wantStr = "abc"
		case 2:
			step(v.OnNil())
			want = []int16{-1}
		case 3:
			step(v.OnBool(true))
			want = []int16{-2}
		case 4:
			step(v.OnFloat64(1.5))
			want = []int16{-3}
		case 5: // [x, [y]]
			step(v.OnArrayStart(2, structform.AnyType))
			step(v.OnInt8(x))
			step(v.OnArrayStart(-1, structform.AnyType))
			step(v.OnUint8(uint8(y) & 0x7f))
			step(v.OnArrayFinished())
			step(v.OnArrayFinished())
			want = []int16{2000, int16(x), 2000, int16(uint8(y) & 0x7f), 2001, 2001}
		case 6: // {"k": x, "kk": {}}
			step(v.OnObjectStart(-1, structform.AnyType))
			step(v.OnKey("k"))
			step(v.OnInt8(x))
			step(v.OnKey("kk"))
			step(v.OnObjectStart(0, structform.AnyType))
			step(v.OnObjectFinished())
			step(v.OnObjectFinished())
			want = []int16{3000, 4001, int16(x), 4002, 3000, 3001, 3001}
		}
	}
	member := h.Choose("member", 0, 3)
	step(v.OnObjectStart(-1, structform.AnyType))
	step(v.OnKey("a"))
	step(v.OnInt8(x))
	step(v.OnKey([]string{"l", "e", "p", "s"}[member]))
	if member == 3 {
		step(v.OnArrayStart(-1, structform.AnyType))
		value()
		value()
		step(v.OnArrayFinished())
	} else {
		value()
	}
	step(v.OnKey("z"))
	step(v.OnInt8(y))
	step(v.OnObjectFinished())
	h.Assert("no-error", err == nil)
	var got, got2 []int16
	switch member {
	case 0:
		got = o.L.log
	case 1:
		got = o.E.log
	case 2:
		if o.P != nil {
			got = o.P.log
		}
	case 3:
		if len(o.S) == 2 {
			got, got2 = o.S[0].log, o.S[1].log
		}
	}
	eq := func(a, b []int16) bool {
		if len(a) != len(b) {
			return false
		}
		ok := true
		for i := range a {
			ok = rt.And(ok, a[i] == b[i])
		}
		return ok
	}
	if shape == 2 && member >= 2 {
		// null for a pointer or slice element: the library handles it itself (nil
		// pointer, zero element); whether the user state sees it is not specified
		h.Tag("null-before-user-state")
	} else {
		h.Assert("member-events", eq(got, want) && (member != 3 || eq(got2, want)))
	}
	h.Assert("neighbours", rt.And(o.A == x, o.Z == y))
	if wantStr != "" {
		// the string the state kept is still what the stream said
		var kept []string
		switch member {
		case 0:
			kept = o.L.strs
		case 1:
			kept = o.E.strs
		case 2:
			if o.P != nil {
				kept = o.P.strs
			}
		case 3:
			if len(o.S) == 2 {
				kept = append(append(kept, o.S[0].strs...), o.S[1].strs...)
			}
		}
		ok := len(kept) > 0
		for _, k := range kept {
			ok = ok && k == wantStr
		}
		h.Assert("kept-string-intact", ok)
	}
}

// ---- processing unfolders: the member's value is unfolded into a cell of another
// type chosen by user code, then handed to a user function together with the target

type uprocT struct {
	sum   int16
	calls int8
}

type uprocCellStruct struct {
	X int8
	Y []int8
}

type uprocOuter struct {
	A int8
	P uprocT
	Q *uprocT
	L []uprocT
	Z int8
}

// UNFOLD_UserProcessing (C13, C14): a processing unfolder func(*T) (cell, func(*T,
// cell) error) for T as field, behind a pointer and as slice element, with a scalar,
// a slice and a struct as cell type: the cell receives exactly the member's value,
// the continuation runs exactly once per value, the members around it are assigned.
func UNFOLD_UserProcessing(h *rt.H) {
	x, y := int8(h.U8("x")), int8(h.U8("y"))
	cellKind := h.Choose("cell", 0, 2)
	proc := func(to *uprocT) (interface{}, func(*uprocT, interface{}) error) {
		done := func(to *uprocT, cell interface{}) error {
			to.calls++
			switch c := cell.(type) {
			case *int64:
				to.sum = int16(*c)
			case *[]int8:
				for _, e := range *c {
					to.sum += int16(e)
				}
			case *uprocCellStruct:
				to.sum = int16(c.X)
				for _, e := range c.Y {
					to.sum += int16(e)
				}
			}
			return nil
		}
		switch cellKind {
		case 0:
			return new(int64), done
		case 1:
			return new([]int8), done
		}
		return new(uprocCellStruct), done
	}
	var o uprocOuter
	u, err := gotype.NewUnfolder(&o, gotype.Unfolders(proc))
	h.Assert("unfolder-created", err == nil)
	if err != nil {
		return
	}
	v := structform.EnsureExtVisitor(u)
	step := func(e error) {
		if err == nil {
			err = e
		}
	}
	var want int16
	value := func() {
		switch cellKind {
		case 0:
			step(v.OnInt8(x))
			want = int16(x)
		case 1:
			step(v.OnArrayStart(2, structform.AnyType))
			step(v.OnInt8(x))
			step(v.OnInt8(y))
			step(v.OnArrayFinished())
			want = int16(x) + int16(y)
		case 2:
			step(v.OnObjectStart(-1, structform.AnyType))
			step(v.OnKey("x"))
			step(v.OnInt8(x))
			step(v.OnKey("y"))
			step(v.OnArrayStart(-1, structform.AnyType))
			step(v.OnInt8(y))
			step(v.OnArrayFinished())
			step(v.OnObjectFinished())
			want = int16(x) + int16(y)
		}
	}
	member := h.Choose("member", 0, 2)
	step(v.OnObjectStart(-1, structform.AnyType))
	step(v.OnKey("a"))
	step(v.OnInt8(x))
	step(v.OnKey([]string{"p", "q", "l"}[member]))
	if member == 2 {
		step(v.OnArrayStart(-1, structform.AnyType))
		value()
		value()
		step(v.OnArrayFinished())
	} else {
		value()
	}
	step(v.OnKey("z"))
	step(v.OnInt8(y))
	step(v.OnObjectFinished())
	h.Assert("no-error", err == nil)
	one := func(t uprocT) bool { return rt.And(t.sum == want, t.calls == 1) }
	ok := false
	switch member {
	case 0:
		ok = one(o.P)
	case 1:
		ok = o.Q != nil && one(*o.Q)
	case 2:
		ok = len(o.L) == 2 && rt.And(one(o.L[0]), one(o.L[1]))
	}
	h.Assert("processed", ok)
	h.Assert("neighbours", rt.And(o.A == x, o.Z == y))
}

// uprocSelf: the processing unfolder hands the target itself out as cell (unfolded by
// the default struct unfolder) and post-processes it afterwards.
type uprocSelf struct {
	A     int8
	B     int8
	Calls int8 `struct:"-"`
}

type uprocSelfOuter struct {
	N int8
	S uprocSelf
	P *uprocSelf
}

// UNFOLD_UserProcessingSelf (C13, C14, C17): "reuse the target as cell and post
// process": the member is unfolded by the default unfolder for its type and the
// continuation runs once; a second document through the same unfolder (Reset,
// SetTarget) is processed exactly like the first.
func UNFOLD_UserProcessingSelf(h *rt.H) {
	x, y := int8(h.U8("x")), int8(h.U8("y"))
	proc := func(to *uprocSelf) (interface{}, func(*uprocSelf, interface{}) error) {
		return to, func(to *uprocSelf, cell interface{}) error {
			to.Calls++
			to.B += 100
			return nil
		}
	}
	doc := func(v structform.ExtVisitor, top bool) error {
		var err error
		step := func(e error) {
			if err == nil {
				err = e
			}
		}
		self := func() {
			step(v.OnObjectStart(-1, structform.AnyType))
			step(v.OnKey("a"))
			step(v.OnInt8(x))
			step(v.OnKey("b"))
			step(v.OnInt8(3))
			step(v.OnObjectFinished())
		}
		if top {
			self()
			return err
		}
		step(v.OnObjectStart(-1, structform.AnyType))
		step(v.OnKey("n"))
		step(v.OnInt8(y))
		step(v.OnKey("s"))
		self()
		step(v.OnKey("p"))
		self()
		step(v.OnObjectFinished())
		return err
	}
	good := func(s uprocSelf) bool { return rt.And(rt.And(s.A == x, s.B == 103), s.Calls == 1) }
	top := h.Choose("top", 0, 1) == 1
	var t1, t2 uprocSelf
	var o1, o2 uprocSelfOuter
	var first interface{} = &o1
	if top {
		first = &t1
	}
	u, err := gotype.NewUnfolder(first, gotype.Unfolders(proc))
	h.Assert("unfolder-created", err == nil)
	if err != nil {
		return
	}
	v := structform.EnsureExtVisitor(u)
	if h.Choose("abandonFirst", 0, 1) == 1 {
		// the first document is abandoned after a mismatch
		_ = v.OnObjectStart(-1, structform.AnyType)
		if top {
			_ = v.OnKey("a")
		} else {
			_ = v.OnKey("n")
		}
		h.Assert("mismatch-is-an-error", v.OnArrayStart(1, structform.AnyType) != nil || v.OnString("x") != nil)
	} else {
		h.Assert("first-document", doc(v, top) == nil)
		if top {
			h.Assert("first-processed", good(t1))
		} else {
			h.Assert("first-processed", rt.And(good(o1.S), o1.P != nil && good(*o1.P)) && o1.N == y)
		}
	}
	u.Reset()
	second := h.Choose("secondTop", 0, 1) == 1
	if second {
		h.Assert("settarget", u.SetTarget(&t2) == nil)
	} else {
		h.Assert("settarget", u.SetTarget(&o2) == nil)
	}
	h.Assert("second-document", doc(v, second) == nil)
	if second {
		h.Assert("second-processed-like-fresh", good(t2))
	} else {
		h.Assert("second-processed-like-fresh", rt.And(good(o2.S), o2.P != nil && good(*o2.P)) && o2.N == y)
	}
}
