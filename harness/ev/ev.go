// Package ev records structform events in a flat, comparable form.
package ev

import (
	"errors"
	"math"

	structform "github.com/elastic/go-structform"

	"verif/harness/rt"
)

type Kind uint8

const (
	ObjStart Kind = iota + 1
	ObjEnd
	Key
	ArrStart
	ArrEnd
	Nil
	Bool
	String
	Int8
	Int16
	Int32
	Int64
	Int
	Byte
	Uint8
	Uint16
	Uint32
	Uint64
	Uint
	Float32
	Float64
	Num // normalised integer: Neg + magnitude in Bits (see Normalise)
)

var kindNames = [...]string{"?", "{", "}", "K", "[", "]", "nil", "bool", "str", "i8", "i16", "i32", "i64", "int", "byte", "u8", "u16", "u32", "u64", "uint", "f32", "f64", "num"}

func (k Kind) String() string { return kindNames[k] }

// Event is one visitor call. Bits carries the scalar payload: signed integers
// sign-extended to 64 bit, unsigned zero-extended, floats as IEEE bits, bool 0/1.
type Event struct {
	K    Kind
	Len  int
	BT   structform.BaseType
	Bits uint64
	Neg  bool // Num only
	Str  []byte
}

// ErrInjected is the distinguished error a Recorder returns at its FailAt-th event.
var ErrInjected = errors.New("injected visitor failure")

// Recorder implements structform.Visitor only (no extended interfaces), copying
// strings and keys at the time of the call.
type Recorder struct {
	Events []Event
	FailAt int // 1-based index of the event at which ErrInjected is returned; 0 = never
	After  int // events received after the failure was returned
	failed bool
}

func (r *Recorder) add(e Event) error {
	if r.failed {
		r.After++
	}
	r.Events = append(r.Events, e)
	if r.FailAt > 0 && len(r.Events) == r.FailAt {
		r.failed = true
		return ErrInjected
	}
	return nil
}

func (r *Recorder) OnObjectStart(l int, t structform.BaseType) error {
	return r.add(Event{K: ObjStart, Len: l, BT: t})
}
func (r *Recorder) OnObjectFinished() error { return r.add(Event{K: ObjEnd}) }
func (r *Recorder) OnKey(s string) error    { return r.add(Event{K: Key, Str: []byte(s)}) }
func (r *Recorder) OnArrayStart(l int, t structform.BaseType) error {
	return r.add(Event{K: ArrStart, Len: l, BT: t})
}
func (r *Recorder) OnArrayFinished() error { return r.add(Event{K: ArrEnd}) }
func (r *Recorder) OnNil() error           { return r.add(Event{K: Nil}) }
func (r *Recorder) OnBool(b bool) error {
	return r.add(Event{K: Bool, Bits: rt.IteU64(b, 1, 0)})
}
func (r *Recorder) OnString(s string) error { return r.add(Event{K: String, Str: []byte(s)}) }
func (r *Recorder) OnInt8(i int8) error     { return r.add(Event{K: Int8, Bits: uint64(int64(i))}) }
func (r *Recorder) OnInt16(i int16) error   { return r.add(Event{K: Int16, Bits: uint64(int64(i))}) }
func (r *Recorder) OnInt32(i int32) error   { return r.add(Event{K: Int32, Bits: uint64(int64(i))}) }
func (r *Recorder) OnInt64(i int64) error   { return r.add(Event{K: Int64, Bits: uint64(i)}) }
func (r *Recorder) OnInt(i int) error       { return r.add(Event{K: Int, Bits: uint64(int64(i))}) }
func (r *Recorder) OnByte(b byte) error     { return r.add(Event{K: Byte, Bits: uint64(b)}) }
func (r *Recorder) OnUint8(u uint8) error   { return r.add(Event{K: Uint8, Bits: uint64(u)}) }
func (r *Recorder) OnUint16(u uint16) error { return r.add(Event{K: Uint16, Bits: uint64(u)}) }
func (r *Recorder) OnUint32(u uint32) error { return r.add(Event{K: Uint32, Bits: uint64(u)}) }
func (r *Recorder) OnUint64(u uint64) error { return r.add(Event{K: Uint64, Bits: u}) }
func (r *Recorder) OnUint(u uint) error     { return r.add(Event{K: Uint, Bits: uint64(u)}) }
func (r *Recorder) OnFloat32(f float32) error {
	return r.add(Event{K: Float32, Bits: uint64(math.Float32bits(f))})
}
func (r *Recorder) OnFloat64(f float64) error {
	return r.add(Event{K: Float64, Bits: math.Float64bits(f)})
}

// RefRecorder additionally implements StringRefVisitor (copies the referenced bytes).
type RefRecorder struct {
	Recorder
	Refs int
}

func (r *RefRecorder) OnStringRef(s []byte) error {
	r.Refs++
	return r.add(Event{K: String, Str: append([]byte(nil), s...)})
}
func (r *RefRecorder) OnKeyRef(s []byte) error {
	r.Refs++
	return r.add(Event{K: Key, Str: append([]byte(nil), s...)})
}

// Equal compares two event lists exactly (kind, announced length, base type, payload,
// string bytes) without forking on symbolic payloads. Kinds and lengths are concrete
// on every path.
func Equal(a, b []Event) bool {
	if len(a) != len(b) {
		return false
	}
	ok := true
	for i := range a {
		if a[i].K != b[i].K || a[i].Len != b[i].Len || a[i].BT != b[i].BT || len(a[i].Str) != len(b[i].Str) {
			return false
		}
		ok = rt.And(ok, a[i].Bits == b[i].Bits)
		ok = rt.And(ok, a[i].Neg == b[i].Neg)
		ok = rt.And(ok, rt.BytesEq(a[i].Str, b[i].Str))
	}
	return ok
}

// Serialize flattens events for observation (trace validation against the native run).
func Serialize(evs []Event) []byte {
	var out []byte
	for _, e := range evs {
		out = append(out, byte(e.K), byte(e.Len), byte(e.BT), rt.IteU8(e.Neg, 1, 0))
		for s := 56; s >= 0; s -= 8 {
			out = append(out, byte(e.Bits>>uint(s)))
		}
		out = append(out, byte(len(e.Str)))
		out = append(out, e.Str...)
	}
	return out
}

func IsInt(k Kind) bool    { return k >= Int8 && k <= Uint }
func IsSigned(k Kind) bool { return k >= Int8 && k <= Int }
func IsFloat(k Kind) bool  { return k == Float32 || k == Float64 }

// NumEvent builds a normalised integer event from sign and magnitude.
func NumEvent(neg bool, mag uint64) Event { return Event{K: Num, Neg: neg, Bits: mag} }

// Normalise maps an event list to the value it describes, dropping what the
// properties call representation: every integer event (any width, signed or
// unsigned, and OnByte) becomes Num(sign, magnitude); announced lengths and
// element types of containers are dropped. Floats, strings, bools, nil and the
// nesting structure are kept as they are.
func Normalise(evs []Event) []Event {
	out := make([]Event, 0, len(evs))
	for _, e := range evs {
		switch {
		case e.K == ObjStart || e.K == ArrStart:
			out = append(out, Event{K: e.K})
		case IsSigned(e.K):
			neg := int64(e.Bits) < 0
			out = append(out, Event{K: Num, Neg: neg, Bits: rt.IteU64(neg, -e.Bits, e.Bits)})
		case IsInt(e.K):
			out = append(out, Event{K: Num, Bits: e.Bits})
		default:
			out = append(out, e)
		}
	}
	return out
}

// baseTypeOf maps an event kind to the BaseType a typed container announces for it.
func baseTypeOf(k Kind) structform.BaseType {
	switch k {
	case Bool:
		return structform.BoolType
	case String:
		return structform.StringType
	case Int8:
		return structform.Int8Type
	case Int16:
		return structform.Int16Type
	case Int32:
		return structform.Int32Type
	case Int64:
		return structform.Int64Type
	case Int:
		return structform.IntType
	case Byte:
		return structform.ByteType
	case Uint8:
		return structform.Uint8Type
	case Uint16:
		return structform.Uint16Type
	case Uint32:
		return structform.Uint32Type
	case Uint64:
		return structform.Uint64Type
	case Uint:
		return structform.UintType
	case Float32:
		return structform.Float32Type
	case Float64:
		return structform.Float64Type
	}
	return structform.AnyType
}

// Contract checks the Visitor contract on a complete event stream of one or more
// values: balanced and properly nested starts/finishes; inside an object every
// value is preceded by exactly one key; a container announcing a non-negative
// length holds exactly that many elements; a container announcing an element type
// other than AnyType/ZeroType holds only scalars of that type. Returns "" or the
// first violation. Structure (kinds, lengths, types) is concrete on every path.
func Contract(evs []Event) string {
	type frame struct {
		obj       bool
		announced int
		bt        structform.BaseType
		count     int
		haveKey   bool
	}
	var stack []frame
	value := func(k Kind) string {
		if len(stack) == 0 {
			return ""
		}
		f := &stack[len(stack)-1]
		if f.obj {
			if !f.haveKey {
				return "value without key inside object"
			}
			f.haveKey = false
		}
		f.count++
		if f.bt != structform.AnyType && f.bt != structform.ZeroType {
			if k == ArrStart || k == ObjStart || k == Nil || baseTypeOf(k) != f.bt {
				return "element kind " + k.String() + " in container typed " + f.bt.String()
			}
		}
		return ""
	}
	for _, e := range evs {
		switch e.K {
		case ObjStart, ArrStart:
			if s := value(e.K); s != "" {
				return s
			}
			stack = append(stack, frame{obj: e.K == ObjStart, announced: e.Len, bt: e.BT})
		case ObjEnd, ArrEnd:
			if len(stack) == 0 {
				return "finish without start"
			}
			f := stack[len(stack)-1]
			if f.obj != (e.K == ObjEnd) {
				return "mismatched finish"
			}
			if f.haveKey {
				return "key without value"
			}
			if f.announced >= 0 && f.count != f.announced {
				return "announced length differs from delivered count"
			}
			stack = stack[:len(stack)-1]
		case Key:
			if len(stack) == 0 || !stack[len(stack)-1].obj {
				return "key outside object"
			}
			if stack[len(stack)-1].haveKey {
				return "two keys in a row"
			}
			stack[len(stack)-1].haveKey = true
		default:
			if s := value(e.K); s != "" {
				return s
			}
		}
	}
	if len(stack) != 0 {
		return "unbalanced: container not finished"
	}
	return ""
}

// KeepRecorder is a Recorder that additionally keeps the strings it was handed
// through OnString and OnKey without copying them, as a consumer storing them would.
type KeepRecorder struct {
	Recorder
	Kept []string
}

func (r *KeepRecorder) OnString(s string) error {
	r.Kept = append(r.Kept, s)
	return r.Recorder.OnString(s)
}

func (r *KeepRecorder) OnKey(s string) error {
	r.Kept = append(r.Kept, s)
	return r.Recorder.OnKey(s)
}
