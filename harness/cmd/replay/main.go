// Command replay runs harnesses natively against the real build of /repo with
// concrete values (solver models), one candidate after the other.
package main

import (
	"encoding/json"
	"flag"
	"fmt"
	"os"
	"runtime"
	"runtime/debug"
	"strings"
	"time"

	"verif/harness/props"
	"verif/harness/rt"
)

type candidate struct {
	Harness string            `json:"harness"`
	Params  map[string]int    `json:"params"`
	Kind    string            `json:"kind"`
	ID      string            `json:"id"`
	Values  map[string]uint64 `json:"values"`
}

func main() {
	from := flag.Int("from", 0, "first candidate index")
	deadline := flag.Duration("deadline", 3*time.Second, "per-candidate deadline")
	flag.Parse()
	data, err := os.ReadFile(flag.Arg(0))
	if err != nil {
		fmt.Println("REPLAY-ERROR", err)
		os.Exit(2)
	}
	var cands []candidate
	if err := json.Unmarshal(data, &cands); err != nil {
		var one candidate
		if err2 := json.Unmarshal(data, &one); err2 != nil {
			fmt.Println("REPLAY-ERROR", err)
			os.Exit(2)
		}
		cands = []candidate{one}
	}
	debug.SetGCPercent(400)
	for i := *from; i < len(cands); i++ {
		c := cands[i]
		fn := props.Registry[c.Harness]
		fmt.Printf("REPLAY-BEGIN %d %s\n", i, c.Harness)
		if fn == nil {
			fmt.Printf("REPLAY status=noharness\nREPLAY-END %d\n", i)
			continue
		}
		h := rt.NewNative(c.Values, c.Params)
		done := make(chan struct{})
		var status, detail string
		var ms0, ms1 runtime.MemStats
		runtime.ReadMemStats(&ms0)
		go func() {
			defer close(done)
			defer func() {
				if r := recover(); r != nil {
					if why, ok := rt.IsStop(r); ok {
						status, detail = "assume-failed", why
						return
					}
					status = "panic"
					detail = fmt.Sprint(r) + " @ " + topFrames(string(debug.Stack()))
				}
			}()
			status = "ok"
			fn(h)
		}()
		select {
		case <-done:
			runtime.ReadMemStats(&ms1)
			fmt.Printf("REPLAY alloc=%d\n", ms1.TotalAlloc-ms0.TotalAlloc)
			h.Report(status, detail)
			fmt.Printf("REPLAY-END %d\n", i)
		case <-time.After(*deadline):
			fmt.Printf("REPLAY status=hang\nREPLAY-END %d\n", i)
			os.Stdout.Sync()
			os.Exit(3) // the goroutine cannot be stopped; the driver resumes after this index
		}
	}
}

// topFrames extracts the first few non-runtime function names of a stack dump.
func topFrames(stack string) string {
	var out []string
	for _, l := range strings.Split(stack, "\n") {
		if strings.HasPrefix(l, "\t") || l == "" || strings.HasPrefix(l, "goroutine") {
			continue
		}
		if strings.HasPrefix(l, "runtime") || strings.HasPrefix(l, "panic(") || strings.Contains(l, "cmd/replay") || strings.HasPrefix(l, "main.") {
			continue
		}
		if i := strings.LastIndex(l, "("); i > 0 {
			l = l[:i]
		}
		out = append(out, l)
		if len(out) >= 4 {
			break
		}
	}
	return strings.Join(out, " < ")
}
