// Command try parses a hex document with a codec, whole and in the given chunks (debug aid).
package main

import (
	"encoding/hex"
	"fmt"
	"io"
	"os"
	"strings"

	structform "github.com/elastic/go-structform"
	"github.com/elastic/go-structform/cborl"
	"github.com/elastic/go-structform/json"
	"github.com/elastic/go-structform/ubjson"

	"verif/harness/ev"
)

type chunks struct{ c [][]byte }

func (r *chunks) Read(p []byte) (int, error) {
	if len(r.c) == 0 {
		return 0, io.EOF
	}
	n := copy(p, r.c[0])
	r.c = r.c[1:]
	return n, nil
}

func show(evs []ev.Event) string {
	var sb strings.Builder
	for _, e := range evs {
		fmt.Fprintf(&sb, "%v(%d,%x,%q) ", e.K, e.Len, e.Bits, e.Str)
	}
	return sb.String()
}

func main() {
	codec := os.Args[1]
	var parts [][]byte
	var whole []byte
	for _, a := range os.Args[2:] {
		b, err := hex.DecodeString(a)
		if err != nil {
			b = []byte(a)
		}
		parts = append(parts, b)
		whole = append(whole, b...)
	}
	parse := map[string]func([]byte, structform.Visitor) error{"cborl": cborl.Parse, "ubjson": ubjson.Parse, "json": json.Parse}[codec]
	pr := map[string]func(io.Reader, structform.Visitor) (int64, error){"cborl": cborl.ParseReader, "ubjson": ubjson.ParseReader, "json": json.ParseReader}[codec]
	var a, b ev.Recorder
	errA := parse(whole, &a)
	fmt.Printf("whole : err=%v events=%s\n", errA, show(a.Events))
	_, errB := pr(&chunks{parts}, &b)
	fmt.Printf("chunks: err=%v events=%s\n", errB, show(b.Events))
}
