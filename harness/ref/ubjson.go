package ref

import (
	"verif/harness/ev"
	"verif/harness/rt"
)

type ubjDec struct {
	h   *rt.H
	in  []byte
	pos int
	out []ev.Event
}

// DecodeUBJSON decodes a stream of UBJSON draft-12 values. Normalised events:
// integers of every width and char become Num; high-precision numbers are
// delivered as their decimal string; counted and typed containers produce the
// same events as plain ones. Class Unclear: no-op inside a counted container or
// as an element type (the draft is not explicit; no claim).
func DecodeUBJSON(h *rt.H, in []byte) (evs []ev.Event, class int, items int) {
	d := &ubjDec{h: h, in: in}
	for d.pos < len(in) {
		if in[d.pos] == 'N' {
			d.pos++
			continue
		}
		if c := d.value(); c != OK {
			return d.out, c, items
		}
		items++
	}
	return d.out, OK, items
}

func (d *ubjDec) need(n int) bool { return len(d.in)-d.pos >= n }

func (d *ubjDec) be(n int) uint64 {
	var v uint64
	for i := 0; i < n; i++ {
		v = v<<8 | uint64(d.in[d.pos+i])
	}
	d.pos += n
	return v
}

func sext(v uint64, bits uint) uint64 {
	s := 64 - bits
	return uint64(int64(v<<s) >> s)
}

func signedNum(v uint64, bits uint) ev.Event {
	x := sext(v, bits)
	neg := int64(x) < 0
	return ev.NumEvent(neg, rt.IteU64(neg, -x, x))
}

// length reads a length: an integer value with its own marker, >= 0.
func (d *ubjDec) length() (int, int) {
	if !d.need(1) {
		return 0, Truncated
	}
	m := d.in[d.pos]
	d.pos++
	var bits uint
	switch m {
	case 'i':
		bits = 8
	case 'U':
		bits = 8
	case 'I':
		bits = 16
	case 'l':
		bits = 32
	case 'L':
		bits = 64
	default:
		d.h.Tag("ubjson.len-marker.invalid")
		return 0, Malformed
	}
	switch m {
	case 'i':
		d.h.Tag("ubjson.len-marker.i")
	case 'U':
		d.h.Tag("ubjson.len-marker.U")
	case 'I':
		d.h.Tag("ubjson.len-marker.I")
	case 'l':
		d.h.Tag("ubjson.len-marker.l")
	case 'L':
		d.h.Tag("ubjson.len-marker.L")
	}
	if !d.need(int(bits / 8)) {
		return 0, Truncated
	}
	v := d.be(int(bits / 8))
	if m != 'U' {
		v = sext(v, bits)
	}
	if int64(v) < 0 {
		return 0, Malformed
	}
	return int(v), OK
}

func (d *ubjDec) value() int {
	if !d.need(1) {
		return Truncated
	}
	m := d.in[d.pos]
	d.pos++
	return d.valueOf(m)
}

// valueOf decodes the payload of a value whose marker m has been consumed (or is
// implied by a typed container).
func (d *ubjDec) valueOf(m byte) int {
	switch m {
	case 'Z':
		d.out = append(d.out, ev.Event{K: ev.Nil})
	case 'T':
		d.out = append(d.out, ev.Event{K: ev.Bool, Bits: 1})
	case 'F':
		d.out = append(d.out, ev.Event{K: ev.Bool, Bits: 0})
	case 'i', 'U', 'I', 'l', 'L', 'C':
		n, bits := 1, uint(8)
		switch m {
		case 'I':
			n, bits = 2, 16
		case 'l':
			n, bits = 4, 32
		case 'L':
			n, bits = 8, 64
		}
		if !d.need(n) {
			return Truncated
		}
		v := d.be(n)
		if m == 'U' || m == 'C' {
			if m == 'C' && v > 127 {
				d.h.Tag("ubjson.char>127")
			}
			d.out = append(d.out, ev.NumEvent(false, v))
		} else {
			d.out = append(d.out, signedNum(v, bits))
		}
	case 'd':
		if !d.need(4) {
			return Truncated
		}
		d.out = append(d.out, ev.Event{K: ev.Float32, Bits: d.be(4)})
	case 'D':
		if !d.need(8) {
			return Truncated
		}
		d.out = append(d.out, ev.Event{K: ev.Float64, Bits: d.be(8)})
	case 'S', 'H':
		n, c := d.length()
		if c != OK {
			return c
		}
		if n > len(d.in)-d.pos {
			return Truncated
		}
		d.out = append(d.out, ev.Event{K: ev.String, Str: clone(d.in[d.pos : d.pos+n])})
		d.pos += n
	case '[':
		return d.container(false)
	case '{':
		return d.container(true)
	case 'N':
		return Unclear
	default:
		d.h.Tag("ubjson.marker.unknown")
		return Malformed
	}
	return OK
}

func (d *ubjDec) key() int {
	n, c := d.length()
	if c != OK {
		return c
	}
	if n > len(d.in)-d.pos {
		return Truncated
	}
	if n == 0 {
		d.h.Tag("ubjson.key.empty")
	}
	d.out = append(d.out, ev.Event{K: ev.Key, Str: clone(d.in[d.pos : d.pos+n])})
	d.pos += n
	return OK
}

// container decodes the rest of an array/object whose opening marker is consumed.
func (d *ubjDec) container(obj bool) int {
	start, end, endMarker := ev.ArrStart, ev.ArrEnd, byte(']')
	if obj {
		start, end, endMarker = ev.ObjStart, ev.ObjEnd, '}'
	}
	if !d.need(1) {
		return Truncated
	}
	typ := byte(0)
	counted := false
	count := 0
	if d.in[d.pos] == '$' {
		d.pos++
		if !d.need(1) {
			return Truncated
		}
		typ = d.in[d.pos]
		d.pos++
		switch typ {
		case 'Z', 'T', 'F', 'i', 'U', 'I', 'l', 'L', 'C', 'd', 'D', 'S', 'H', '[', '{':
		case 'N':
			return Unclear
		default:
			return Malformed
		}
		if !d.need(1) {
			return Truncated
		}
		if d.in[d.pos] != '#' {
			return Malformed // a type requires a count
		}
		d.h.Tag("ubjson.typed")
	}
	if d.in[d.pos] == '#' {
		d.pos++
		counted = true
		var c int
		if count, c = d.length(); c != OK {
			return c
		}
		d.h.Tag("ubjson.counted")
	}
	if counted && !obj && (typ == 'Z' || typ == 'T' || typ == 'F') && count > 8 {
		// elements without payload: the count is not bounded by the input length;
		// larger counts are outside the model
		return Unclear
	}
	d.out = append(d.out, ev.Event{K: start})
	for i := 0; ; i++ {
		if counted {
			if i >= count {
				break
			}
		} else {
			// plain container: no-ops are skipped, end marker closes
			if obj && d.need(1) && d.in[d.pos] == 'N' {
				return Unclear // a no-op where a key is expected: the draft is silent
			}
			for d.need(1) && d.in[d.pos] == 'N' {
				d.pos++
			}
			if !d.need(1) {
				return Truncated
			}
			if d.in[d.pos] == endMarker {
				d.pos++
				break
			}
		}
		zeroPayload := typ == 'Z' || typ == 'T' || typ == 'F'
		if !zeroPayload && !d.need(1) {
			return Truncated
		}
		if obj {
			if !d.need(1) {
				return Truncated
			}
			if c := d.key(); c != OK {
				return c
			}
			if !zeroPayload && !d.need(1) {
				return Truncated
			}
		}
		if typ != 0 {
			if typ == '[' || typ == '{' {
				d.h.Tag("ubjson.typed.nested")
			}
			if zeroPayload {
				d.h.Tag("ubjson.typed.zero-payload")
			}
			if c := d.valueOf(typ); c != OK {
				return c
			}
		} else {
			if counted && d.in[d.pos] == 'N' {
				return Unclear
			}
			if c := d.value(); c != OK {
				return c
			}
		}
	}
	d.out = append(d.out, ev.Event{K: end})
	return OK
}
