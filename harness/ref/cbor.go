// Package ref holds the reference models: short, table-free decoders written from
// the specifications (RFC 7049, RFC 8259, UBJSON draft 12). They are executed
// symbolically next to the library and natively in replays. Trusted base.
package ref

import (
	"verif/harness/ev"
	"verif/harness/rt"
)

// Classification of an input by a reference decoder.
const (
	OK          = iota // a sequence of complete items of the supported subset
	Unsupported        // well-formed so far, but an item uses a feature outside the supported subset
	Malformed          // not well-formed
	Truncated          // a proper prefix of a well-formed input: it ends inside an item
)

var ClassNames = [...]string{"ok", "unsupported", "malformed", "truncated"}
var ClassNames6 = [...]string{"ok", "unsupported", "malformed", "truncated", "unclear", "int-overflow"}

type cborDec struct {
	h   *rt.H
	in  []byte
	pos int
	out []ev.Event
}

// DecodeCBOR decodes a sequence of RFC 7049 data items (the library's parser is
// stream oriented: it reads items until the input is exhausted). It returns the
// normalised events (see ev.Normalise) of all items decoded before the
// classification was decided, the class, and the number of complete top-level items.
func DecodeCBOR(h *rt.H, in []byte) (evs []ev.Event, class int, items int) {
	d := &cborDec{h: h, in: in}
	for d.pos < len(in) {
		if c := d.item(false); c != OK {
			return d.out, c, items
		}
		items++
	}
	return d.out, OK, items
}

// arg reads the argument for additional information ai (24..27 -> 1,2,4,8 bytes).
func (d *cborDec) arg(ai byte) (v uint64, class int) {
	n := 1 << (ai - 24)
	if len(d.in)-d.pos < n {
		return 0, Truncated
	}
	for i := 0; i < n; i++ {
		v = v<<8 | uint64(d.in[d.pos+i])
	}
	d.pos += n
	return v, OK
}

// item decodes one data item. inIndef: a break byte is admissible here (handled by the caller).
func (d *cborDec) item(_ bool) int {
	if d.pos >= len(d.in) {
		return Truncated
	}
	b := d.in[d.pos]
	d.pos++
	major, ai := b>>5, b&31
	if ai >= 28 && ai <= 30 {
		d.h.Tag("cbor.ai.reserved")
		return Malformed
	}
	if ai == 31 && (major == 0 || major == 1 || major == 6) {
		d.h.Tag("cbor.ai.reserved")
		return Malformed
	}
	var arg uint64
	if ai < 24 {
		arg = uint64(ai)
	} else if ai < 28 && major != 7 {
		var c int
		if arg, c = d.arg(ai); c != OK {
			return c
		}
	}
	switch major {
	case 0:
		d.out = append(d.out, ev.NumEvent(false, arg))
	case 1:
		// value = -1 - arg; representable iff arg <= 2^63-1
		if arg > 1<<63-1 {
			d.h.Tag("cbor.neg.below-int64")
			return Unsupported
		}
		d.out = append(d.out, ev.NumEvent(true, arg+1))
	case 2, 3:
		if ai == 31 {
			d.h.Tag("cbor.indef-string")
			return Unsupported
		}
		if arg > uint64(len(d.in)-d.pos) {
			if arg > 1<<63-1 {
				d.h.Tag("cbor.len>=2^63")
			}
			return Truncated
		}
		n := int(arg)
		body := d.in[d.pos : d.pos+n]
		d.pos += n
		if major == 3 {
			d.out = append(d.out, ev.Event{K: ev.String, Str: clone(body)})
		} else {
			d.out = append(d.out, ev.Event{K: ev.ArrStart})
			for _, c := range body {
				d.out = append(d.out, ev.NumEvent(false, uint64(c)))
			}
			d.out = append(d.out, ev.Event{K: ev.ArrEnd})
		}
	case 4:
		d.out = append(d.out, ev.Event{K: ev.ArrStart})
		if ai == 31 {
			for {
				if d.pos >= len(d.in) {
					return Truncated
				}
				if d.in[d.pos] == 0xff {
					d.pos++
					break
				}
				if c := d.item(true); c != OK {
					return c
				}
			}
		} else {
			for i := uint64(0); i < arg; i++ {
				if d.pos >= len(d.in) {
					return Truncated
				}
				if c := d.item(false); c != OK {
					return c
				}
			}
		}
		d.out = append(d.out, ev.Event{K: ev.ArrEnd})
	case 5:
		d.out = append(d.out, ev.Event{K: ev.ObjStart})
		for i := uint64(0); ; i++ {
			if ai == 31 {
				if d.pos >= len(d.in) {
					return Truncated
				}
				if d.in[d.pos] == 0xff {
					d.pos++
					break
				}
			} else if i >= arg {
				break
			}
			if d.pos >= len(d.in) {
				return Truncated
			}
			if c := d.key(); c != OK {
				return c
			}
			if d.pos >= len(d.in) {
				return Truncated
			}
			if c := d.item(false); c != OK {
				return c
			}
		}
		d.out = append(d.out, ev.Event{K: ev.ObjEnd})
	case 6:
		d.h.Tag("cbor.tag")
		return Unsupported
	case 7:
		switch {
		case ai == 20:
			d.out = append(d.out, ev.Event{K: ev.Bool, Bits: 0})
		case ai == 21:
			d.out = append(d.out, ev.Event{K: ev.Bool, Bits: 1})
		case ai == 22 || ai == 23:
			d.out = append(d.out, ev.Event{K: ev.Nil})
		case ai < 20:
			d.h.Tag("cbor.simple")
			return Unsupported
		case ai == 24:
			if d.pos >= len(d.in) {
				return Truncated
			}
			if d.in[d.pos] < 32 {
				return Malformed
			}
			d.h.Tag("cbor.simple")
			return Unsupported
		case ai == 25:
			d.h.Tag("cbor.half")
			return Unsupported
		case ai == 26:
			v, c := d.arg(26)
			if c != OK {
				return c
			}
			d.out = append(d.out, ev.Event{K: ev.Float32, Bits: v})
		case ai == 27:
			v, c := d.arg(27)
			if c != OK {
				return c
			}
			d.out = append(d.out, ev.Event{K: ev.Float64, Bits: v})
		default: // 31: break outside an indefinite container
			d.h.Tag("cbor.break")
			return Malformed
		}
	}
	return OK
}

// key decodes a map key: only definite-length text strings are in the subset.
func (d *cborDec) key() int {
	b := d.in[d.pos]
	major, ai := b>>5, b&31
	if ai >= 28 && ai <= 30 {
		d.h.Tag("cbor.ai.reserved")
		return Malformed
	}
	if major != 3 {
		if b == 0xff {
			d.h.Tag("cbor.break")
			return Malformed
		}
		d.h.Tag("cbor.key.non-text")
		return Unsupported
	}
	if ai == 31 {
		d.h.Tag("cbor.indef-string")
		return Unsupported
	}
	d.pos++
	arg := uint64(ai)
	if ai >= 24 {
		var c int
		if arg, c = d.arg(ai); c != OK {
			return c
		}
	}
	if arg > uint64(len(d.in)-d.pos) {
		if arg > 1<<63-1 {
			d.h.Tag("cbor.len>=2^63")
		}
		return Truncated
	}
	n := int(arg)
	if n == 0 {
		d.h.Tag("cbor.map.key.empty")
	}
	d.out = append(d.out, ev.Event{K: ev.Key, Str: clone(d.in[d.pos : d.pos+n])})
	d.pos += n
	return OK
}

func clone(b []byte) []byte { return append([]byte(nil), b...) }
