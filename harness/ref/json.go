package ref

import (
	"math"
	"strconv"

	"verif/harness/ev"
	"verif/harness/rt"
)

// Additional classes used by the JSON and UBJSON reference decoders.
const (
	Unclear     = 4 // lexically invalid or outside what the properties constrain: no claim
	IntOverflow = 5 // JSON: a valid text with an integer literal outside the 64-bit range
)

type jsonDec struct {
	h   *rt.H
	in  []byte
	pos int
	out []ev.Event
}

// DecodeJSON decodes a stream of RFC 8259 texts separated by optional whitespace
// (the library reads streams; a single text is the case the RFC defines).
// Returns normalised events. Class OK: valid; Malformed: lexically valid tokens
// whose bracket/comma/colon structure is not that of a JSON text; Unclear:
// lexically invalid input (leniency is not asserted against) or adjacent scalars
// without separator; Truncated: proper prefix of a valid stream; IntOverflow: valid,
// contains an integer literal beyond int64/uint64 (events up to it are returned).
func DecodeJSON(h *rt.H, in []byte) (evs []ev.Event, class int, items int) {
	d := &jsonDec{h: h, in: in}
	for {
		d.ws()
		if d.pos >= len(in) {
			return d.out, OK, items
		}
		start := d.in[d.pos]
		if items > 0 && d.pos > 0 && !isWS(d.in[d.pos-1]) {
			// two top-level values without whitespace between them: only after a
			// container is this unambiguous
			prev := d.in[d.pos-1]
			if prev != ']' && prev != '}' {
				return d.out, Unclear, items
			}
		}
		_ = start
		if c := d.value(); c != OK {
			return d.out, c, items
		}
		items++
	}
}

func isWS(c byte) bool { return c == ' ' || c == '\t' || c == '\n' || c == '\r' }

func (d *jsonDec) ws() {
	for d.pos < len(d.in) && isWS(d.in[d.pos]) {
		d.pos++
	}
}

func isValueStart(c byte) bool {
	return c == '"' || c == '[' || c == '{' || c == '-' || (c >= '0' && c <= '9') || c == 't' || c == 'f' || c == 'n'
}

// unexpected classifies a byte found where the grammar wants something else.
func unexpected(c byte) int {
	if isValueStart(c) || c == ']' || c == '}' || c == ',' || c == ':' {
		return Malformed
	}
	return Unclear
}

func (d *jsonDec) value() int {
	d.ws()
	if d.pos >= len(d.in) {
		return Truncated
	}
	c := d.in[d.pos]
	switch {
	case c == '{':
		return d.object()
	case c == '[':
		return d.array()
	case c == '"':
		s, cl := d.str()
		if cl != OK {
			return cl
		}
		d.out = append(d.out, ev.Event{K: ev.String, Str: s})
		return OK
	case c == '-' || (c >= '0' && c <= '9'):
		return d.number()
	case c == 't':
		return d.literal("true", ev.Event{K: ev.Bool, Bits: 1})
	case c == 'f':
		return d.literal("false", ev.Event{K: ev.Bool, Bits: 0})
	case c == 'n':
		return d.literal("null", ev.Event{K: ev.Nil})
	}
	return unexpected(c)
}

func (d *jsonDec) literal(lit string, e ev.Event) int {
	for i := 0; i < len(lit); i++ {
		if d.pos+i >= len(d.in) {
			return Truncated
		}
		if d.in[d.pos+i] != lit[i] {
			return Unclear
		}
	}
	d.pos += len(lit)
	// a literal directly followed by a letter/digit is not a token
	if d.pos < len(d.in) {
		n := d.in[d.pos]
		if (n >= 'a' && n <= 'z') || (n >= 'A' && n <= 'Z') || (n >= '0' && n <= '9') {
			return Unclear
		}
	}
	d.out = append(d.out, e)
	return OK
}

func (d *jsonDec) array() int {
	d.pos++ // [
	d.out = append(d.out, ev.Event{K: ev.ArrStart})
	d.ws()
	if d.pos >= len(d.in) {
		return Truncated
	}
	if d.in[d.pos] == ']' {
		d.pos++
		d.out = append(d.out, ev.Event{K: ev.ArrEnd})
		return OK
	}
	for {
		d.ws()
		if d.pos >= len(d.in) {
			return Truncated
		}
		if !isValueStart(d.in[d.pos]) {
			return unexpected(d.in[d.pos])
		}
		if c := d.value(); c != OK {
			return c
		}
		d.ws()
		if d.pos >= len(d.in) {
			return Truncated
		}
		switch c := d.in[d.pos]; {
		case c == ',':
			d.pos++
		case c == ']':
			d.pos++
			d.out = append(d.out, ev.Event{K: ev.ArrEnd})
			return OK
		default:
			return unexpected(c)
		}
	}
}

func (d *jsonDec) object() int {
	d.pos++ // {
	d.out = append(d.out, ev.Event{K: ev.ObjStart})
	d.ws()
	if d.pos >= len(d.in) {
		return Truncated
	}
	if d.in[d.pos] == '}' {
		d.pos++
		d.out = append(d.out, ev.Event{K: ev.ObjEnd})
		return OK
	}
	for {
		d.ws()
		if d.pos >= len(d.in) {
			return Truncated
		}
		if d.in[d.pos] != '"' {
			return unexpected(d.in[d.pos])
		}
		k, cl := d.str()
		if cl != OK {
			return cl
		}
		d.out = append(d.out, ev.Event{K: ev.Key, Str: k})
		d.ws()
		if d.pos >= len(d.in) {
			return Truncated
		}
		if d.in[d.pos] != ':' {
			return unexpected(d.in[d.pos])
		}
		d.pos++
		d.ws()
		if d.pos >= len(d.in) {
			return Truncated
		}
		if !isValueStart(d.in[d.pos]) {
			return unexpected(d.in[d.pos])
		}
		if c := d.value(); c != OK {
			return c
		}
		d.ws()
		if d.pos >= len(d.in) {
			return Truncated
		}
		switch c := d.in[d.pos]; {
		case c == ',':
			d.pos++
		case c == '}':
			d.pos++
			d.out = append(d.out, ev.Event{K: ev.ObjEnd})
			return OK
		default:
			return unexpected(c)
		}
	}
}

func isDigit(c byte) bool { return c >= '0' && c <= '9' }

// number: [-] int [frac] [exp]
func (d *jsonDec) number() int {
	start := d.pos
	neg := false
	if d.in[d.pos] == '-' {
		neg = true
		d.pos++
		if d.pos >= len(d.in) {
			return Unclear // number token cut by the end of input: lexical leniency, no claim
		}
		if !isDigit(d.in[d.pos]) {
			return Unclear
		}
	}
	var mag uint64
	overflow := false
	if d.in[d.pos] == '0' {
		d.pos++
		if d.pos < len(d.in) && isDigit(d.in[d.pos]) {
			return Unclear // leading zero
		}
	} else {
		for d.pos < len(d.in) && isDigit(d.in[d.pos]) {
			dg := uint64(d.in[d.pos] - '0')
			// mag*10+dg overflows uint64?
			// mag*10+dg > MaxUint64  (MaxUint64 = 1844674407370955161*10 + 5)
			over := rt.Or(mag > 1844674407370955161, rt.And(mag == 1844674407370955161, dg > 5))
			overflow = rt.Or(overflow, over)
			mag = mag*10 + dg
			d.pos++
		}
	}
	isFloat := false
	if d.pos < len(d.in) && d.in[d.pos] == '.' {
		isFloat = true
		d.pos++
		if d.pos >= len(d.in) {
			return Unclear // number token cut by the end of input: lexical leniency, no claim
		}
		if !isDigit(d.in[d.pos]) {
			return Unclear
		}
		for d.pos < len(d.in) && isDigit(d.in[d.pos]) {
			d.pos++
		}
	}
	if d.pos < len(d.in) && (d.in[d.pos] == 'e' || d.in[d.pos] == 'E') {
		isFloat = true
		d.pos++
		if d.pos >= len(d.in) {
			return Unclear // number token cut by the end of input: lexical leniency, no claim
		}
		if d.in[d.pos] == '+' || d.in[d.pos] == '-' {
			d.pos++
			if d.pos >= len(d.in) {
				return Unclear // number token cut by the end of input: lexical leniency, no claim
			}
		}
		if !isDigit(d.in[d.pos]) {
			return Unclear
		}
		for d.pos < len(d.in) && isDigit(d.in[d.pos]) {
			d.pos++
		}
	}
	// a number directly followed by a letter, '.', '+', '-' is not a token
	if d.pos < len(d.in) {
		n := d.in[d.pos]
		if (n >= 'a' && n <= 'z') || (n >= 'A' && n <= 'Z') || n == '.' || n == '+' || n == '-' || n == '_' {
			return Unclear
		}
	}
	if isFloat {
		f, err := strconv.ParseFloat(string(d.in[start:d.pos]), 64)
		if err != nil {
			// beyond the float64 range: may be rejected (no claim on the value)
			d.h.Tag("json.float.range")
			return Unclear
		}
		d.out = append(d.out, ev.Event{K: ev.Float64, Bits: math.Float64bits(f)})
		return OK
	}
	// integer literal: int64 if it fits, else uint64 if it fits, else out of range
	if overflow {
		d.h.Tag("json.int.overflow")
		return IntOverflow
	}
	if neg && mag > 1<<63 {
		d.h.Tag("json.int<minint64")
		return IntOverflow
	}
	if !neg && mag > math.MaxInt64 {
		d.h.Tag("json.int>maxint64")
	}
	if mag == 0 {
		neg = false // -0 as an integer is 0
	}
	d.out = append(d.out, ev.NumEvent(neg, mag))
	return OK
}

func hexVal(c byte) (byte, bool) {
	switch {
	case c >= '0' && c <= '9':
		return c - '0', true
	case c >= 'a' && c <= 'f':
		return c - 'a' + 10, true
	case c >= 'A' && c <= 'F':
		return c - 'A' + 10, true
	}
	return 0, false
}

// hex4 reads 4 hex digits at pos.
func (d *jsonDec) hex4() (uint32, int) {
	var v uint32
	for i := 0; i < 4; i++ {
		if d.pos >= len(d.in) {
			return 0, Truncated
		}
		x, ok := hexVal(d.in[d.pos])
		if !ok {
			if d.in[d.pos] == '"' {
				return 0, Unclear
			}
			return 0, Unclear
		}
		v = v<<4 | uint32(x)
		d.pos++
	}
	return v, OK
}

func appendRune(b []byte, r uint32) []byte {
	switch {
	case r < 0x80:
		return append(b, byte(r))
	case r < 0x800:
		return append(b, 0xc0|byte(r>>6), 0x80|byte(r)&0x3f)
	case r < 0x10000:
		return append(b, 0xe0|byte(r>>12), 0x80|byte(r>>6)&0x3f, 0x80|byte(r)&0x3f)
	}
	return append(b, 0xf0|byte(r>>18), 0x80|byte(r>>12)&0x3f, 0x80|byte(r>>6)&0x3f, 0x80|byte(r)&0x3f)
}

// str decodes a string starting at the opening quote.
func (d *jsonDec) str() ([]byte, int) {
	d.pos++
	out := []byte{}
	for {
		if d.pos >= len(d.in) {
			return nil, Truncated
		}
		c := d.in[d.pos]
		switch {
		case c == '"':
			d.pos++
			return out, OK
		case c < 0x20:
			return nil, Unclear // raw control character: lexically invalid
		case c == '\\':
			d.pos++
			if d.pos >= len(d.in) {
				return nil, Truncated
			}
			e := d.in[d.pos]
			d.pos++
			d.h.Tag("json.escape")
			switch e {
			case '"', '\\', '/':
				out = append(out, e)
			case 'b':
				out = append(out, '\b')
			case 'f':
				out = append(out, '\f')
			case 'n':
				out = append(out, '\n')
			case 'r':
				out = append(out, '\r')
			case 't':
				out = append(out, '\t')
			case 'u':
				r, cl := d.hex4()
				if cl != OK {
					return nil, cl
				}
				if r >= 0xd800 && r < 0xdc00 {
					// high surrogate: a following \uDC00..\uDFFF completes the pair
					paired := false
					if d.pos+1 < len(d.in) && d.in[d.pos] == '\\' && d.in[d.pos+1] == 'u' {
						save := d.pos
						d.pos += 2
						lo, cl := d.hex4()
						if cl == Truncated {
							return nil, Truncated
						}
						if cl == OK && lo >= 0xdc00 && lo < 0xe000 {
							out = appendRune(out, 0x10000+((r-0xd800)<<10|(lo-0xdc00)))
							paired = true
							d.h.Tag("json.surrogate.pair")
						} else {
							d.pos = save
						}
					} else if d.pos >= len(d.in) || (d.in[d.pos] == '\\' && d.pos+1 >= len(d.in)) {
						return nil, Truncated
					}
					if !paired {
						d.h.Tag("json.surrogate.lone")
						out = appendRune(out, 0xfffd)
					}
				} else if r >= 0xdc00 && r < 0xe000 {
					d.h.Tag("json.surrogate.lone")
					out = appendRune(out, 0xfffd)
				} else {
					out = appendRune(out, r)
				}
			default:
				return nil, Unclear
			}
		case c < 0x80:
			out = append(out, c)
			d.pos++
		default:
			// raw UTF-8 sequence: must be valid (RFC 8259 texts are UTF-8), copied untouched
			n, cl := d.utf8len()
			if cl != OK {
				return nil, cl
			}
			d.h.Tag("json.utf8.multibyte")
			out = append(out, d.in[d.pos:d.pos+n]...)
			d.pos += n
		}
	}
}

// utf8len validates one multi-byte UTF-8 sequence at pos (RFC 3629: no overlongs,
// no surrogates, <= U+10FFFF).
func (d *jsonDec) utf8len() (int, int) {
	c := d.in[d.pos]
	var n int
	var lo, hi byte = 0x80, 0xbf
	switch {
	case c >= 0xc2 && c <= 0xdf:
		n = 2
	case c == 0xe0:
		n, lo = 3, 0xa0
	case c >= 0xe1 && c <= 0xec, c == 0xee, c == 0xef:
		n = 3
	case c == 0xed:
		n, hi = 3, 0x9f
	case c == 0xf0:
		n, lo = 4, 0x90
	case c >= 0xf1 && c <= 0xf3:
		n = 4
	case c == 0xf4:
		n, hi = 4, 0x8f
	default:
		return 0, Unclear
	}
	for i := 1; i < n; i++ {
		if d.pos+i >= len(d.in) {
			return 0, Truncated
		}
		b := d.in[d.pos+i]
		l, h := byte(0x80), byte(0xbf)
		if i == 1 {
			l, h = lo, hi
		}
		if b < l || b > h {
			return 0, Unclear
		}
	}
	return n, OK
}

// Sanitise: what a JSON encoder may do with invalid UTF-8 in a string (the property
// allows replacing it by U+FFFD): every maximal invalid byte becomes U+FFFD, valid
// sequences are kept. Mirrors encoding/json: one replacement per invalid byte.
func Sanitise(in []byte) []byte {
	d := &jsonDec{in: in}
	var out []byte
	for d.pos < len(in) {
		c := in[d.pos]
		if c < 0x80 {
			out = append(out, c)
			d.pos++
			continue
		}
		n, cl := d.utf8lenNoTag()
		if cl != OK {
			out = appendRune(out, 0xfffd)
			d.pos++
			continue
		}
		out = append(out, in[d.pos:d.pos+n]...)
		d.pos += n
	}
	return out
}

// utf8lenNoTag is utf8len for callers without a harness handle; a sequence cut by the
// end of the input is invalid here.
func (d *jsonDec) utf8lenNoTag() (int, int) {
	n, cl := d.utf8len()
	if cl == Truncated {
		return 0, Unclear
	}
	return n, cl
}

// ValidUTF8 reports whether b is valid UTF-8 (RFC 3629).
func ValidUTF8(b []byte) bool {
	d := &jsonDec{in: b}
	for d.pos < len(b) {
		if b[d.pos] < 0x80 {
			d.pos++
			continue
		}
		n, cl := d.utf8lenNoTag()
		if cl != OK {
			return false
		}
		d.pos += n
	}
	return true
}
