// Package gen generates well-formed values with concrete structure (chosen by
// h.Choose, so the engine forks over shapes) and symbolic scalar payloads, and
// encodes them with reference encoders that make the representation choices the
// specifications allow.
package gen

import (
	"verif/harness/ev"
	"verif/harness/rt"
)

type Kind int

const (
	KNil Kind = iota
	KBool
	KInt   // int64 payload in Bits
	KStr   // bytes
	KArr
	KObj
	KUint  // uint64 payload
	KF32
	KF64
)

type Node struct {
	K    Kind
	Bits uint64
	Str  []byte
	Kids []*Node
	Keys [][]byte
}

type Cfg struct {
	Depth   int // containers may nest this deep (0: scalars only)
	Width   int // max children per container
	MaxNode int // max nodes in total
	StrLen  int // max length of strings and keys (symbolic bytes)
	Leaves  int // number of leaf kinds used: 4 = nil,bool,int,string; 7 adds uint,f32,f64
	ASCII   bool // strings/keys restricted to printable ASCII without quote/backslash
	nodes   int
	h       *rt.H
	seq     int
}

func (c *Cfg) name(s string) string {
	c.seq++
	return s
}

// Value generates one value.
func Value(h *rt.H, c *Cfg) *Node {
	c.h = h
	return c.value(0)
}

func (c *Cfg) str(what string) []byte {
	n := c.h.Choose(what+"len", 0, c.StrLen)
	b := c.h.Bytes(what, n)
	if c.ASCII {
		for _, x := range b {
			c.h.Assume(x >= 0x20 && x < 0x7f && x != '"' && x != '\\')
		}
	}
	return b
}

func (c *Cfg) value(depth int) *Node {
	c.nodes++
	maxKind := c.Leaves - 1
	leafKinds := []Kind{KNil, KBool, KInt, KStr, KUint, KF32, KF64}
	nChoices := c.Leaves
	canNest := depth < c.Depth && c.nodes < c.MaxNode
	if canNest {
		nChoices += 2
	}
	_ = maxKind
	k := c.h.Choose("kind", 0, nChoices-1)
	if k < c.Leaves {
		n := &Node{K: leafKinds[k]}
		switch n.K {
		case KBool:
			n.Bits = rt.IteU64(c.h.Bool("b"), 1, 0)
		case KInt, KUint, KF64:
			n.Bits = c.h.U64("v")
		case KF32:
			n.Bits = uint64(c.h.U32("v"))
		case KStr:
			n.Str = c.str("s")
		}
		return n
	}
	n := &Node{K: KArr}
	if k == c.Leaves+1 {
		n.K = KObj
	}
	room := c.MaxNode - c.nodes
	w := c.Width
	if room < w {
		w = room
	}
	cnt := c.h.Choose("n", 0, w)
	for i := 0; i < cnt; i++ {
		if n.K == KObj {
			n.Keys = append(n.Keys, c.str("k"))
		}
		n.Kids = append(n.Kids, c.value(depth+1))
	}
	return n
}

// Events returns the normalised events (ev.Normalise form) describing the value.
func (n *Node) Events(out []ev.Event) []ev.Event {
	switch n.K {
	case KNil:
		out = append(out, ev.Event{K: ev.Nil})
	case KBool:
		out = append(out, ev.Event{K: ev.Bool, Bits: n.Bits})
	case KInt:
		neg := int64(n.Bits) < 0
		out = append(out, ev.NumEvent(neg, rt.IteU64(neg, -n.Bits, n.Bits)))
	case KUint:
		out = append(out, ev.NumEvent(false, n.Bits))
	case KF32:
		out = append(out, ev.Event{K: ev.Float32, Bits: n.Bits})
	case KF64:
		out = append(out, ev.Event{K: ev.Float64, Bits: n.Bits})
	case KStr:
		out = append(out, ev.Event{K: ev.String, Str: n.Str})
	case KArr:
		out = append(out, ev.Event{K: ev.ArrStart})
		for _, k := range n.Kids {
			out = k.Events(out)
		}
		out = append(out, ev.Event{K: ev.ArrEnd})
	case KObj:
		out = append(out, ev.Event{K: ev.ObjStart})
		for i, k := range n.Kids {
			out = append(out, ev.Event{K: ev.Key, Str: n.Keys[i]})
			out = k.Events(out)
		}
		out = append(out, ev.Event{K: ev.ObjEnd})
	}
	return out
}

// ---------------------------------------------------------------- CBOR reference encoder

// CBOROpts: representation choices RFC 7049 allows for the same value.
type CBOROpts struct {
	Width int  // 0: minimal; 1,2,4,8: every argument that fits uses this many bytes
	Indef bool // containers of indefinite length
}

func cborHead(out []byte, major byte, arg uint64, width int) []byte {
	// arg and width are concrete for lengths; for integer payloads the caller forks
	switch {
	case width == 0 && arg < 24:
		return append(out, major<<5|byte(arg))
	case width <= 1 && arg < 1<<8:
		return append(out, major<<5|24, byte(arg))
	case width <= 2 && arg < 1<<16:
		return append(out, major<<5|25, byte(arg>>8), byte(arg))
	case width <= 4 && arg < 1<<32:
		return append(out, major<<5|26, byte(arg>>24), byte(arg>>16), byte(arg>>8), byte(arg))
	}
	return append(out, major<<5|27, byte(arg>>56), byte(arg>>48), byte(arg>>40), byte(arg>>32), byte(arg>>24), byte(arg>>16), byte(arg>>8), byte(arg))
}

// EncodeCBOR encodes n. Integer payloads are symbolic: the width of their argument
// is chosen with h.Choose among the widths the value fits into (assumed).
func EncodeCBOR(h *rt.H, n *Node, o CBOROpts, out []byte) []byte {
	switch n.K {
	case KNil:
		out = append(out, 0xf6)
	case KBool:
		out = append(out, 0xf4+byte(n.Bits))
	case KInt, KUint:
		major, arg := byte(0), n.Bits
		if n.K == KInt {
			neg := int64(n.Bits) < 0
			arg = rt.IteU64(neg, ^n.Bits, n.Bits)
			major = rt.IteU8(neg, 1, 0)
		}
		w := h.Choose("cborw", 0, 4) // 0: immediate, 1..4: 1,2,4,8 byte argument
		switch w {
		case 0:
			h.Assume(arg < 24)
			out = append(out, major<<5|byte(arg))
		case 1:
			h.Assume(arg < 1<<8)
			out = append(out, major<<5|24, byte(arg))
		case 2:
			h.Assume(arg < 1<<16)
			out = append(out, major<<5|25, byte(arg>>8), byte(arg))
		case 3:
			h.Assume(arg < 1<<32)
			out = append(out, major<<5|26, byte(arg>>24), byte(arg>>16), byte(arg>>8), byte(arg))
		default:
			out = append(out, major<<5|27, byte(arg>>56), byte(arg>>48), byte(arg>>40), byte(arg>>32), byte(arg>>24), byte(arg>>16), byte(arg>>8), byte(arg))
		}
	case KF32:
		out = append(out, 0xfa, byte(n.Bits>>24), byte(n.Bits>>16), byte(n.Bits>>8), byte(n.Bits))
	case KF64:
		out = append(out, 0xfb, byte(n.Bits>>56), byte(n.Bits>>48), byte(n.Bits>>40), byte(n.Bits>>32), byte(n.Bits>>24), byte(n.Bits>>16), byte(n.Bits>>8), byte(n.Bits))
	case KStr:
		out = cborHead(out, 3, uint64(len(n.Str)), o.Width)
		out = append(out, n.Str...)
	case KArr:
		if o.Indef {
			out = append(out, 0x9f)
		} else {
			out = cborHead(out, 4, uint64(len(n.Kids)), o.Width)
		}
		for _, k := range n.Kids {
			out = EncodeCBOR(h, k, o, out)
		}
		if o.Indef {
			out = append(out, 0xff)
		}
	case KObj:
		if o.Indef {
			out = append(out, 0xbf)
		} else {
			out = cborHead(out, 5, uint64(len(n.Kids)), o.Width)
		}
		for i, k := range n.Kids {
			out = cborHead(out, 3, uint64(len(n.Keys[i])), o.Width)
			out = append(out, n.Keys[i]...)
			out = EncodeCBOR(h, k, o, out)
		}
		if o.Indef {
			out = append(out, 0xff)
		}
	}
	return out
}
