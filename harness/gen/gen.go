// Package gen generates well-formed values with concrete structure (chosen by
// h.Choose, so the engine forks over shapes) and symbolic scalar payloads, and
// encodes them with reference encoders that make the representation choices the
// specifications allow.
package gen

import (
	"verif/harness/ev"
	"verif/harness/rt"
)

type Kind int

const (
	KNil Kind = iota
	KBool
	KInt // int64 payload in Bits
	KStr // bytes
	KArr
	KObj
	KUint // uint64 payload
	KF32
	KF64
	KBytes // byte string (CBOR major type 2); other formats: array of small unsigned integers
)

type Node struct {
	K    Kind
	Bits uint64
	Str  []byte
	Kids []*Node
	Keys [][]byte
}

type Cfg struct {
	Depth   int  // containers may nest this deep (0: scalars only)
	Width   int  // max children per container
	MaxNode int  // max nodes in total
	StrLen  int  // max length of strings and keys (symbolic bytes)
	Leaves  int  // number of leaf kinds used, in the order int,string,bool,nil,uint,f32,f64,bytes
	Bytes   bool // additionally generate byte strings (independent of Leaves)
	ASCII   bool // strings/keys restricted to printable ASCII without quote/backslash
	Small   bool // integers restricted to 0..9 and string bytes to 'a' (harnesses whose subject is not the scalar encoding)
	// Chain > 0: the generated value sits at the bottom of a concrete chain of
	// containers, one child each, whose depth is chosen in Chain-2..Chain+2 (the
	// libraries' internal stacks start with 32 or 64 entries: Chain 32 and 64 put the
	// depth on both sides of the reallocation). Mix: arrays, objects (key "k"), or
	// alternating, chosen per document.
	Chain int
	// Long > 0: strings and keys may also be long: lengths 63..66 and 130 (around the
	// 64-byte literal/collect buffers of the parsers and the encoders' scratch
	// space), with Long >= 2 also 255, 256 and 300 (where the length prefix of CBOR
	// and UBJSON changes width); Long 3: lengths equal to UBJSON marker bytes; Long 4:
	// 1 KiB / 4 KiB boundaries; Long 5: every length from 2 to 40; Long 6: 2^15 and 2^16 boundaries. First byte symbolic, the rest a fixed pattern.
	Long int
	// Special: strings and keys may also be one of a fixed set of texts that encoders
	// and parsers treat specially (line/paragraph separators, HTML characters, DEL,
	// multi-byte runes of every length, an escape-like text, invalid UTF-8 unless ASCII)
	Special bool
	nodes   int
	h       *rt.H
	seq     int
}

func (c *Cfg) name(s string) string {
	c.seq++
	return s
}

// Value generates one value.
func Value(h *rt.H, c *Cfg) *Node {
	c.h = h
	n := c.value(0)
	if c.Chain > 0 {
		lo := c.Chain - 2
		if lo < 1 {
			lo = 1
		}
		depth := h.Choose("chain", lo, c.Chain+2)
		mix := h.Choose("chainmix", 0, 2)
		for i := 0; i < depth; i++ {
			w := &Node{K: KArr, Kids: []*Node{n}}
			if mix == 1 || (mix == 2 && i%2 == 0) {
				w.K = KObj
				w.Keys = [][]byte{[]byte("k")}
			}
			n = w
		}
	}
	return n
}

var specialStrings = []string{"\u2028", "a\u2029b", "<&>", "\x7f", "\u00e9", "\u20ac", "\U0001F600", "\\u0041", "a\"b\\", "\t\n", "\x1f\x00", "\xc0\x80", "\xff"}

func (c *Cfg) str(what string) []byte {
	if c.Special {
		n := len(specialStrings)
		if c.ASCII || c.Small {
			n -= 2 // without the invalid UTF-8 ones
		}
		if i := c.h.Choose(what+"special", 0, n); i > 0 {
			return []byte(specialStrings[i-1])
		}
	}
	if c.Long > 0 {
		lens := []int{0, 63, 64, 65, 66, 130, 255, 256, 300}
		max := 5
		if c.Long >= 2 {
			max = 8
		}
		if c.Long == 3 {
			// lengths whose encoding is a structural marker byte of UBJSON
			// (# $ F N T Z [ ] { }): a pending length byte must never be read as a marker
			lens = []int{0, '#', '$', 'F', 'N', 'T', 'Z', '[', ']', '{', '}'}
			max = 10
		}
		if c.Long == 4 {
			// beyond the sizes at which buffers are grown, kept or dropped (1 KiB, 4 KiB)
			lens = []int{0, 1023, 1025, 1100, 4095, 4097, 4200}
			max = 6
		}
		if c.Long == 6 {
			// where a 16-bit length prefix stops being enough (UBJSON 'I' is signed)
			lens = []int{0, 32767, 32768, 65535, 65536}
			max = 4
		}
		if c.Long == 5 {
			// every length 2..40: the encoders' 16-byte scratch buffers, the 24-value
			// limit of CBOR's immediate lengths, small-string fast paths
			lens = lens[:1]
			for n := 2; n <= 40; n++ {
				lens = append(lens, n)
			}
			max = len(lens) - 1
		}
		if i := c.h.Choose(what+"long", 0, max); i > 0 {
			b := make([]byte, lens[i])
			copy(b, c.h.Bytes(what, 1))
			if c.Small || c.ASCII {
				c.h.Assume(b[0] >= 'a' && b[0] <= 'z')
			}
			for j := 1; j < len(b); j++ {
				b[j] = byte('a' + j%26)
			}
			return b
		}
	}
	n := c.h.Choose(what+"len", 0, c.StrLen)
	b := c.h.Bytes(what, n)
	if c.Small {
		for _, x := range b {
			c.h.Assume(x == 'a')
		}
	} else if c.ASCII {
		for _, x := range b {
			c.h.Assume(x >= 0x20 && x < 0x7f && x != '"' && x != '\\')
		}
	}
	return b
}

func (c *Cfg) value(depth int) *Node {
	c.nodes++
	maxKind := c.Leaves - 1
	leafKinds := []Kind{KInt, KStr, KBool, KNil, KUint, KF32, KF64, KBytes}
	nChoices := c.Leaves
	if c.Bytes && c.Leaves < 8 {
		// byte strings as an extra leaf choice right after the configured leaves
		leafKinds = append(append([]Kind{}, leafKinds[:c.Leaves]...), KBytes)
		nChoices++
	}
	nLeaves := nChoices
	canNest := depth < c.Depth && c.nodes < c.MaxNode
	if canNest {
		nChoices += 2
	}
	_ = maxKind
	k := c.h.Choose("kind", 0, nChoices-1)
	if k < nLeaves {
		n := &Node{K: leafKinds[k]}
		switch n.K {
		case KBool:
			n.Bits = rt.IteU64(c.h.Bool("b"), 1, 0)
		case KInt, KUint, KF64:
			n.Bits = c.h.U64("v")
			if c.Small && n.K != KF64 {
				c.h.Assume(n.Bits <= 9)
			}
		case KF32:
			n.Bits = uint64(c.h.U32("v"))
		case KStr:
			n.Str = c.str("s")
		case KBytes:
			n.Str = c.h.Bytes("bs", c.h.Choose("bslen", 0, 2))
		}
		return n
	}
	n := &Node{K: KArr}
	if k == nLeaves+1 {
		n.K = KObj
	}
	room := c.MaxNode - c.nodes
	w := c.Width
	if room < w {
		w = room
	}
	cnt := c.h.Choose("n", 0, w)
	for i := 0; i < cnt; i++ {
		if n.K == KObj {
			n.Keys = append(n.Keys, c.str("k"))
		}
		n.Kids = append(n.Kids, c.value(depth+1))
	}
	return n
}

// Events returns the normalised events (ev.Normalise form) describing the value.
func (n *Node) Events(out []ev.Event) []ev.Event {
	switch n.K {
	case KNil:
		out = append(out, ev.Event{K: ev.Nil})
	case KBool:
		out = append(out, ev.Event{K: ev.Bool, Bits: n.Bits})
	case KInt:
		neg := int64(n.Bits) < 0
		out = append(out, ev.NumEvent(neg, rt.IteU64(neg, -n.Bits, n.Bits)))
	case KUint:
		out = append(out, ev.NumEvent(false, n.Bits))
	case KF32:
		out = append(out, ev.Event{K: ev.Float32, Bits: n.Bits})
	case KF64:
		out = append(out, ev.Event{K: ev.Float64, Bits: n.Bits})
	case KStr:
		out = append(out, ev.Event{K: ev.String, Str: n.Str})
	case KBytes:
		out = append(out, ev.Event{K: ev.ArrStart})
		for _, b := range n.Str {
			out = append(out, ev.NumEvent(false, uint64(b)))
		}
		out = append(out, ev.Event{K: ev.ArrEnd})
	case KArr:
		out = append(out, ev.Event{K: ev.ArrStart})
		for _, k := range n.Kids {
			out = k.Events(out)
		}
		out = append(out, ev.Event{K: ev.ArrEnd})
	case KObj:
		out = append(out, ev.Event{K: ev.ObjStart})
		for i, k := range n.Kids {
			out = append(out, ev.Event{K: ev.Key, Str: n.Keys[i]})
			out = k.Events(out)
		}
		out = append(out, ev.Event{K: ev.ObjEnd})
	}
	return out
}

// ---------------------------------------------------------------- CBOR reference encoder

// CBOROpts: representation choices RFC 7049 allows for the same value.
type CBOROpts struct {
	Width int  // 0: minimal; 1,2,4,8: every argument that fits uses this many bytes
	Indef bool // containers of indefinite length
	Mixed bool // definite or indefinite length chosen per container (fork), Indef ignored
	IntW  int  // integers: -1 = chosen per integer (fork), 0..4 = immediate,1,2,4,8 bytes for every integer of the document
}

func cborHead(out []byte, major byte, arg uint64, width int) []byte {
	// arg and width are concrete for lengths; for integer payloads the caller forks
	switch {
	case width == 0 && arg < 24:
		return append(out, major<<5|byte(arg))
	case width <= 1 && arg < 1<<8:
		return append(out, major<<5|24, byte(arg))
	case width <= 2 && arg < 1<<16:
		return append(out, major<<5|25, byte(arg>>8), byte(arg))
	case width <= 4 && arg < 1<<32:
		return append(out, major<<5|26, byte(arg>>24), byte(arg>>16), byte(arg>>8), byte(arg))
	}
	return append(out, major<<5|27, byte(arg>>56), byte(arg>>48), byte(arg>>40), byte(arg>>32), byte(arg>>24), byte(arg>>16), byte(arg>>8), byte(arg))
}

// EncodeCBOR encodes n. Integer payloads are symbolic: the width of their argument
// is chosen with h.Choose among the widths the value fits into (assumed).
func EncodeCBOR(h *rt.H, n *Node, o CBOROpts, out []byte) []byte {
	switch n.K {
	case KNil:
		out = append(out, 0xf6)
	case KBool:
		out = append(out, 0xf4+byte(n.Bits))
	case KInt, KUint:
		major, arg := byte(0), n.Bits
		if n.K == KInt {
			neg := int64(n.Bits) < 0
			arg = rt.IteU64(neg, ^n.Bits, n.Bits)
			major = rt.IteU8(neg, 1, 0)
		}
		w := o.IntW
		if w < 0 {
			w = h.Choose("cborw", 0, 4) // 0: immediate, 1..4: 1,2,4,8 byte argument
		}
		switch w {
		case 0:
			h.Assume(arg < 24)
			out = append(out, major<<5|byte(arg))
		case 1:
			h.Assume(arg < 1<<8)
			out = append(out, major<<5|24, byte(arg))
		case 2:
			h.Assume(arg < 1<<16)
			out = append(out, major<<5|25, byte(arg>>8), byte(arg))
		case 3:
			h.Assume(arg < 1<<32)
			out = append(out, major<<5|26, byte(arg>>24), byte(arg>>16), byte(arg>>8), byte(arg))
		default:
			out = append(out, major<<5|27, byte(arg>>56), byte(arg>>48), byte(arg>>40), byte(arg>>32), byte(arg>>24), byte(arg>>16), byte(arg>>8), byte(arg))
		}
	case KF32:
		out = append(out, 0xfa, byte(n.Bits>>24), byte(n.Bits>>16), byte(n.Bits>>8), byte(n.Bits))
	case KF64:
		out = append(out, 0xfb, byte(n.Bits>>56), byte(n.Bits>>48), byte(n.Bits>>40), byte(n.Bits>>32), byte(n.Bits>>24), byte(n.Bits>>16), byte(n.Bits>>8), byte(n.Bits))
	case KStr:
		out = cborHead(out, 3, uint64(len(n.Str)), o.Width)
		out = append(out, n.Str...)
	case KBytes:
		out = cborHead(out, 2, uint64(len(n.Str)), o.Width)
		out = append(out, n.Str...)
	case KArr:
		indef := o.Indef
		if o.Mixed {
			indef = h.Choose("cindef", 0, 1) == 1
		}
		if indef {
			out = append(out, 0x9f)
		} else {
			out = cborHead(out, 4, uint64(len(n.Kids)), o.Width)
		}
		for _, k := range n.Kids {
			out = EncodeCBOR(h, k, o, out)
		}
		if indef {
			out = append(out, 0xff)
		}
	case KObj:
		indef := o.Indef
		if o.Mixed {
			indef = h.Choose("cindef", 0, 1) == 1
		}
		if indef {
			out = append(out, 0xbf)
		} else {
			out = cborHead(out, 5, uint64(len(n.Kids)), o.Width)
		}
		for i, k := range n.Kids {
			out = cborHead(out, 3, uint64(len(n.Keys[i])), o.Width)
			out = append(out, n.Keys[i]...)
			out = EncodeCBOR(h, k, o, out)
		}
		if indef {
			out = append(out, 0xff)
		}
	}
	return out
}

// ---------------------------------------------------------------- JSON reference writer (text level)

// JSONOpts: insignificant whitespace style (RFC 8259 allows ws around the six
// structural characters).
type JSONOpts struct {
	WS  int // 0 none; 1 space after , and :; 2 space before , : ] }; 3 newline after [ { and before ] }; 4 tab+CR everywhere
	Esc int // 0 none; 1 every string and key starts with \"; 2 every string and key ends with \\ ; 3 starts with \u0041
}

// jsonStr writes the string/key body between quotes with the escape style of o.
// Harnesses that need the value decode the text with the reference decoder.
func jsonStr(h *rt.H, o JSONOpts, body []byte, out []byte) []byte {
	out = append(out, '"')
	switch o.Esc {
	case 1:
		out = append(out, '\\', '"')
	case 3:
		out = append(out, '\\', 'u', '0', '0', '4', '1')
	}
	const hex = "0123456789abcdef"
	for _, c := range body {
		if !h.Concrete(c) {
			h.Assume(c >= 0x20 && c < 0x7f && c != '"' && c != '\\')
			out = append(out, c)
			continue
		}
		// fixed text (Cfg.Special): escaped as RFC 8259 requires, everything else raw
		switch {
		case c == '"' || c == '\\':
			out = append(out, '\\', c)
		case c < 0x20:
			out = append(out, '\\', 'u', '0', '0', hex[c>>4], hex[c&15])
		default:
			out = append(out, c)
		}
	}
	if o.Esc == 2 {
		out = append(out, '\\', '\\')
	}
	return append(out, '"')
}

func (o JSONOpts) after(c byte) string {
	switch {
	case o.WS == 1 && (c == ',' || c == ':'):
		return " "
	case o.WS == 3 && (c == '[' || c == '{'):
		return "\n"
	case o.WS == 4:
		return "\t\r"
	}
	return ""
}

func (o JSONOpts) before(c byte) string {
	switch {
	case o.WS == 2 && (c == ',' || c == ':' || c == ']' || c == '}'):
		return " "
	case o.WS == 3 && (c == ']' || c == '}'):
		return "\n"
	case o.WS == 4:
		return " \n"
	}
	return ""
}

func (o JSONOpts) tok(out []byte, c byte) []byte {
	out = append(out, o.before(c)...)
	out = append(out, c)
	return append(out, o.after(c)...)
}

// JSONText writes n as JSON text. Scalars are written at token level: an integer is
// an optional '-' and 1..2 symbolic digits, a string is its (assumed plain ASCII)
// bytes between quotes, so no arithmetic is needed and every token stays symbolic.
// Node payloads (Bits) are not used for KInt; use DecodeJSON on the text for values.
func JSONText(h *rt.H, n *Node, o JSONOpts, out []byte) []byte {
	switch n.K {
	case KNil:
		out = append(out, "null"...)
	case KBool:
		if h.Choose("jbool", 0, 1) == 1 {
			out = append(out, "true"...)
		} else {
			out = append(out, "false"...)
		}
	case KInt, KUint, KF32, KF64:
		form := h.Choose("jnum", 0, 3) // 0: d, 1: -d, 2: dd, 3: d.d
		d := h.Bytes("jd", 2)
		h.Assume(d[0] >= '0' && d[0] <= '9' && d[1] >= '0' && d[1] <= '9')
		switch form {
		case 0:
			out = append(out, d[0])
		case 1:
			out = append(out, '-', d[0])
		case 2:
			h.Assume(d[0] != '0')
			out = append(out, d[0], d[1])
		case 3:
			out = append(out, d[0], '.', d[1])
		}
	case KStr:
		out = jsonStr(h, o, n.Str, out)
	case KBytes:
		out = o.tok(out, '[')
		for i, c := range n.Str {
			if i > 0 {
				out = o.tok(out, ',')
			}
			h.Assume(c < 10)
			out = append(out, '0'+c)
		}
		out = o.tok(out, ']')
	case KArr:
		out = o.tok(out, '[')
		for i, k := range n.Kids {
			if i > 0 {
				out = o.tok(out, ',')
			}
			out = JSONText(h, k, o, out)
		}
		out = o.tok(out, ']')
	case KObj:
		out = o.tok(out, '{')
		for i, k := range n.Kids {
			if i > 0 {
				out = o.tok(out, ',')
			}
			out = jsonStr(h, o, n.Keys[i], out)
			out = o.tok(out, ':')
			out = JSONText(h, k, o, out)
		}
		out = o.tok(out, '}')
	}
	return out
}

// ---------------------------------------------------------------- UBJSON reference encoder

// UBJOpts: representation choices draft 12 allows.
type UBJOpts struct {
	Container int  // 0 plain ([...]), 1 counted ([#n ...), 2 typed+counted where all elements share a marker, -1 chosen per container (fork)
	LenMarker byte // marker used for lengths and counts: i U I l L
	Noop      bool // a no-op before every element of a plain container
	IntMarker byte // marker for every integer of the document; 0 = chosen per integer (fork)
}

func ubjLen(out []byte, n int, m byte) []byte {
	switch m {
	case 'i', 'U':
		return append(out, m, byte(n))
	case 'I':
		return append(out, m, byte(n>>8), byte(n))
	case 'l':
		return append(out, m, byte(n>>24), byte(n>>16), byte(n>>8), byte(n))
	}
	return append(out, 'L', 0, 0, 0, 0, byte(n>>24), byte(n>>16), byte(n>>8), byte(n))
}

// ubjMarker picks the marker of a scalar node (integers: a symbolic choice among the
// markers the value fits into, fixed per node in n.Str[0] slot via Choose).
func ubjMarker(h *rt.H, n *Node, o UBJOpts) byte {
	switch n.K {
	case KNil:
		return 'Z'
	case KBool:
		// concrete per path
		if h.Choose("ubool", 0, 1) == 1 {
			return 'T'
		}
		return 'F'
	case KInt, KUint:
		if o.IntMarker != 0 {
			return o.IntMarker
		}
		return []byte{'i', 'U', 'I', 'l', 'L'}[h.Choose("uint", 0, 4)]
	case KF32:
		return 'd'
	case KF64:
		return 'D'
	case KStr:
		return 'S'
	case KArr, KBytes:
		return '['
	}
	return '{'
}

func be(out []byte, v uint64, n int) []byte {
	for s := (n - 1) * 8; s >= 0; s -= 8 {
		out = append(out, byte(v>>uint(s)))
	}
	return out
}

// ubjPayload writes the payload of n for marker m (marker already written or implied)
// and constrains symbolic payloads to what the marker can carry.
func ubjPayload(h *rt.H, n *Node, m byte, o UBJOpts, out []byte) []byte {
	switch m {
	case 'Z':
	case 'T':
		h.Assume(n.Bits == 1)
	case 'F':
		h.Assume(n.Bits == 0)
	case 'i':
		h.Assume(int64(n.Bits) >= -128 && int64(n.Bits) <= 127)
		out = append(out, byte(n.Bits))
	case 'U':
		h.Assume(n.Bits <= 255)
		out = append(out, byte(n.Bits))
	case 'I':
		h.Assume(int64(n.Bits) >= -32768 && int64(n.Bits) <= 32767)
		out = be(out, n.Bits, 2)
	case 'l':
		h.Assume(int64(n.Bits) >= -1<<31 && int64(n.Bits) < 1<<31)
		out = be(out, n.Bits, 4)
	case 'L':
		out = be(out, n.Bits, 8)
	case 'd':
		out = be(out, n.Bits, 4)
	case 'D':
		out = be(out, n.Bits, 8)
	case 'S':
		out = ubjLen(out, len(n.Str), o.LenMarker)
		out = append(out, n.Str...)
	case '[', '{':
		if n.K == KBytes {
			out = append(out, '$', 'U', '#')
			out = ubjLen(out, len(n.Str), o.LenMarker)
			return append(out, n.Str...)
		}
		out = ubjContainer(h, n, o, out)
	}
	return out
}

func ubjContainer(h *rt.H, n *Node, o UBJOpts, out []byte) []byte {
	obj := n.K == KObj
	mode := o.Container
	if mode < 0 {
		mode = h.Choose("ucont", 0, 2)
	}
	var markers []byte
	for _, k := range n.Kids {
		markers = append(markers, ubjMarker(h, k, o))
	}
	typ := byte(0)
	if mode == 2 {
		if len(markers) == 0 {
			typ = 'Z'
		} else {
			typ = markers[0]
			for _, m := range markers {
				if m != typ {
					mode = 1 // not homogeneous: counted only
				}
			}
		}
	}
	if mode == 2 {
		out = append(out, '$', typ)
	}
	if mode >= 1 {
		out = append(out, '#')
		out = ubjLen(out, len(n.Kids), o.LenMarker)
	}
	for i, k := range n.Kids {
		if mode == 0 && o.Noop && !obj {
			out = append(out, 'N')
		}
		if obj {
			out = ubjLen(out, len(n.Keys[i]), o.LenMarker)
			out = append(out, n.Keys[i]...)
		}
		if mode != 2 {
			out = append(out, markers[i])
		}
		out = ubjPayload(h, k, markers[i], o, out)
	}
	if mode == 0 {
		if obj {
			out = append(out, '}')
		} else {
			out = append(out, ']')
		}
	}
	return out
}

// EncodeUBJSON encodes n with the representation choices o.
func EncodeUBJSON(h *rt.H, n *Node, o UBJOpts, out []byte) []byte {
	m := ubjMarker(h, n, o)
	out = append(out, m)
	return ubjPayload(h, n, m, o, out)
}
