// Package rt is the harness runtime. Natively its methods read a replay vector;
// under the symbolic engine every exported function here is intercepted.
package rt

import (
	"fmt"
	"os"
	"sort"
	"strings"
	"sync"
)

type H struct {
	Values       map[string]uint64
	Params       map[string]int
	seen         map[string]int
	Failed       []string
	Tags         []string
	Observed     map[string]string
	obsSeen      map[string]int
	AssumeFailed bool
	AllocLimit   int
}

// stopReplay is the panic value used to leave a harness when an assumption fails natively.
type stopReplay struct{ why string }

func NewNative(values map[string]uint64, params map[string]int) *H {
	return &H{Values: values, Params: params, seen: map[string]int{}, Observed: map[string]string{}, obsSeen: map[string]int{}}
}

func (h *H) uniq(name string) string {
	n := h.seen[name]
	h.seen[name] = n + 1
	if n == 0 {
		return name
	}
	return fmt.Sprintf("%s~%d", name, n+1)
}

// Param returns a concrete bound parameter of the run.
func (h *H) Param(name string, def int) int {
	if v, ok := h.Params[name]; ok {
		return v
	}
	return def
}

// Native reports whether the harness runs natively (replay) rather than symbolically.
func (h *H) Native() bool { return true }

// Choose returns a value in lo..hi; the engine forks over all of them.
func (h *H) Choose(name string, lo, hi int) int {
	v := int(int64(h.Values[h.uniq(name)]))
	if v < lo || v > hi {
		panic(stopReplay{"choice out of range: " + name})
	}
	return v
}

func (h *H) Bool(name string) bool  { return h.Values[h.uniq(name)]&1 == 1 }
func (h *H) U8(name string) uint8   { return uint8(h.Values[h.uniq(name)]) }
func (h *H) U16(name string) uint16 { return uint16(h.Values[h.uniq(name)]) }
func (h *H) U32(name string) uint32 { return uint32(h.Values[h.uniq(name)]) }
func (h *H) U64(name string) uint64 { return h.Values[h.uniq(name)] }

// Concrete reports whether b is a concrete value on this path (natively: always).
// Reference writers use it to escape fixed special text while leaving symbolic bytes
// to an assumption; for bytes that satisfy the assumption the escaping is the
// identity, so the engine and the native replay build the same document.
func (h *H) Concrete(b byte) bool { return true }

// Bytes returns n fresh symbolic bytes.
func (h *H) Bytes(name string, n int) []byte {
	b := make([]byte, n)
	for i := range b {
		b[i] = byte(h.Values[h.uniq(fmt.Sprintf("%s_%d", name, i))])
	}
	return b
}

// Assume restricts the inputs considered. Placed before the code it constrains.
func (h *H) Assume(c bool) {
	if !c {
		h.AssumeFailed = true
		panic(stopReplay{"assumption failed"})
	}
}

// Assert states the property. The engine asks the solver for inputs violating it.
func (h *H) Assert(id string, c bool) {
	if !c {
		h.Failed = append(h.Failed, id)
	}
}

func (h *H) Fail(id string) { h.Failed = append(h.Failed, id) }
func (h *H) Tag(t string) {
	for _, x := range h.Tags {
		if x == t {
			return
		}
	}
	h.Tags = append(h.Tags, t)
}
func (h *H) Reach(id string)     {}
func (h *H) SetAllocLimit(n int) { h.AllocLimit = n }

// Go runs the functions concurrently (natively: one goroutine each, repeated a few
// times so that the race detector of the race-enabled replay binary sees them
// overlap). The engine runs them one after the other under its shared-state monitor.
func (h *H) Go(fs ...func()) {
	for round := 0; round < 4; round++ {
		var wg sync.WaitGroup
		for _, f := range fs {
			wg.Add(1)
			go func(f func()) {
				defer wg.Done()
				f()
			}(f)
		}
		wg.Wait()
	}
}

// AssertIndependent: decided by the engine's monitor; natively a no-op (the race
// detector is the native oracle).
func (h *H) AssertIndependent(id string) {}

func (h *H) obs(label, v string) {
	n := h.obsSeen[label]
	h.obsSeen[label] = n + 1
	if n > 0 {
		label = fmt.Sprintf("%s~%d", label, n+1)
	}
	if len(v) > 1<<20 {
		v = v[:1<<20] + "...(truncated)" // a runaway native run must not flood the driver
	}
	h.Observed[label] = v
}

func (h *H) ObserveU64(label string, v uint64) { h.obs(label, fmt.Sprintf("%x", v)) }
func (h *H) ObserveBool(label string, v bool) {
	if v {
		h.obs(label, "1")
	} else {
		h.obs(label, "0")
	}
}
func (h *H) ObserveBytes(label string, b []byte) {
	parts := make([]string, len(b))
	for i, x := range b {
		parts[i] = fmt.Sprintf("%x", x)
	}
	h.obs(label, strings.Join(parts, " "))
}

// Non-forking boolean connectives and selects.
func And(a, b bool) bool     { return a && b }
func Or(a, b bool) bool      { return a || b }
func Implies(a, b bool) bool { return !a || b }
func IteU64(c bool, a, b uint64) uint64 {
	if c {
		return a
	}
	return b
}
func IteU8(c bool, a, b uint8) uint8 {
	if c {
		return a
	}
	return b
}
func IteInt(c bool, a, b int) int {
	if c {
		return a
	}
	return b
}
func IteBool(c bool, a, b bool) bool {
	if c {
		return a
	}
	return b
}

// BytesEq compares two byte slices without forking (lengths are concrete per path).
func BytesEq(a, b []byte) bool {
	if len(a) != len(b) {
		return false
	}
	ok := true
	for i := range a {
		ok = ok && a[i] == b[i]
	}
	return ok
}

// Symbolic reports whether the harness is executed by the engine.
func Symbolic() bool { return false }

// Report prints the outcome of a native replay in a line-oriented format.
func (h *H) Report(status, detail string) {
	fmt.Printf("REPLAY status=%s\n", status)
	if detail != "" {
		fmt.Printf("REPLAY detail=%s\n", strings.ReplaceAll(detail, "\n", " | "))
	}
	for _, f := range h.Failed {
		fmt.Printf("REPLAY failed=%s\n", f)
	}
	for _, t := range h.Tags {
		fmt.Printf("REPLAY tag=%s\n", t)
	}
	var ks []string
	for k := range h.Observed {
		ks = append(ks, k)
	}
	sort.Strings(ks)
	for _, k := range ks {
		fmt.Printf("REPLAY obs %s=%s\n", k, h.Observed[k])
	}
	os.Stdout.Sync()
}

// IsStop reports whether a recovered panic value is the harness's own stop signal.
func IsStop(r interface{}) (string, bool) {
	s, ok := r.(stopReplay)
	return s.why, ok
}

// FloatSyntax classifies s as an argument of strconv.ParseFloat(s, 64). It is the
// engine's model of ParseFloat's *syntax* check (the conversion itself is trusted
// strconv): 1 = well-formed decimal literal, 0 = syntax error, 2 = not modelled
// (hexadecimal, inf/nan, underscores). bigExp: the exponent has three or more
// digits, so a range error is possible.
func FloatSyntax(s string) (class int, bigExp bool) {
	i := 0
	if i < len(s) && (s[i] == '+' || s[i] == '-') {
		i++
	}
	digits := 0
	sawDot := false
	for ; i < len(s); i++ {
		c := s[i]
		if c >= '0' && c <= '9' {
			digits++
			continue
		}
		if c == '.' && !sawDot {
			sawDot = true
			continue
		}
		break
	}
	if i < len(s) {
		c := s[i]
		if c == '_' || c == 'x' || c == 'X' || c == 'p' || c == 'P' || c == 'i' || c == 'I' || c == 'n' || c == 'N' {
			return 2, false
		}
	}
	if digits == 0 {
		return 0, false
	}
	if i < len(s) && (s[i] == 'e' || s[i] == 'E') {
		i++
		if i >= len(s) {
			return 0, false
		}
		if s[i] == '+' || s[i] == '-' {
			i++
		}
		ed := 0
		for ; i < len(s) && s[i] >= '0' && s[i] <= '9'; i++ {
			ed++
		}
		if ed == 0 {
			return 0, false
		}
		if i < len(s) && s[i] == '_' {
			return 2, false
		}
		bigExp = ed >= 3
	}
	if i != len(s) {
		return 0, false
	}
	return 1, bigExp
}
