#!/usr/bin/env python3
"""Regenerates MANIFEST.json from checks.json and the per-property notes below."""
import json, sys
props=[json.loads(l) for l in open('/verif/properties.jsonl')]
checks=json.load(open('/verif/checks.json'))
notes=json.load(open('/verif/manifest_notes.json'))
out={"version":1,
 "setup_cmd":"make -C /verif build",
 "hooks":{"guard":"verif","enable":"none needed: harnesses use the public API from /verif/harness (go.mod replace => /repo); no hook commits in /repo",
          "baseline_off_cmd":"cd /repo && go test -mod=mod -json -vet=off -count=1 -timeout 25m ./...","source_commits":[],"add_only":True},
 "engines":[{"name":"gosym","path":"/verif/engine","serves_properties":sorted(checks.keys()),
   "kind_free_text":"bounded symbolic execution of Go SSA (golang.org/x/tools/go/ssa v0.29.0, rebuilt from /repo's working tree on every run) with Z3 4.8.12 in-process (cgo/libz3) and SMT-LIB2 escalation to cvc5 --solve-bv-as-int=sum / z3 5.1; solver models are replayed natively against the real build before a VIOLATION is printed"}],
 "checks":[],"not_applicable":[],
 "notes":"See DESIGN.md. ./check <id> [--tier quick|thorough]; ./check replay <file>. Known findings: known_findings.json."}
for p in props:
    pid=p['id']
    if pid in checks and pid in notes.get('claimed',{}):
        n=notes['claimed'][pid]
        c={"property_id":pid,"quick_cmd":"./check %s --tier quick"%pid,"evidence_file":"/verif/evidence/%s.json"%pid,
           "replay_cmd_template":"./check replay {path}","engine":"gosym",
           "level_claimed":{"category":checks[pid].get("level","model_checking"),"text":n["text"],"design_ref":n.get("design_ref","DESIGN.md §4 "+pid)},
           "level_note":n["note"],"technique":n.get("technique","bounded symbolic execution of Go SSA + SMT (Z3/cvc5), counterexamples replayed natively")}
        if "thorough" in checks[pid]["tiers"]:
            c["thorough_cmd"]="./check %s --tier thorough"%pid
        out["checks"].append(c)
    else:
        out["not_applicable"].append({"property_id":pid,"reason":notes.get('not_applicable',{}).get(pid,"check not built yet in this session (work in progress, see DESIGN.md)")})
json.dump(out,open('/verif/MANIFEST.json','w'),indent=1)
print("checks:",len(out["checks"]),"not_applicable:",len(out["not_applicable"]))
