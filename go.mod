module verif

go 1.23

require (
	github.com/elastic/go-structform v0.0.0
	golang.org/x/tools v0.29.0
)

require (
	github.com/davecgh/go-spew v1.1.0 // indirect
	github.com/pmezard/go-difflib v1.0.0 // indirect
	github.com/stretchr/testify v1.7.0 // indirect
	golang.org/x/mod v0.22.0 // indirect
	golang.org/x/sync v0.10.0 // indirect
	gopkg.in/yaml.v3 v3.0.0-20200313102051-9f266ea9e77c // indirect
)

replace github.com/elastic/go-structform => /repo
