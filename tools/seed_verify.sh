#!/bin/bash
# tools/seed_verify.sh <seeded-dir>
# Confirms in a scratch worktree of /repo HEAD: (1) the existing suite passes with the
# change, (2) the demonstration fails with it, (3) the demonstration passes without it.
set -u
d=$(realpath "$1")
export GOFLAGS=-mod=mod GOPROXY=off GOSUMDB=off GOTOOLCHAIN=local
wt=$(mktemp -d /tmp/seedwt.XXXXXX)
git -C /repo worktree add -q --detach "$wt" "${SEED_BASE:-HEAD}" || exit 2
trap 'git -C /repo worktree remove --force "$wt" >/dev/null 2>&1; rm -rf "$wt"' EXIT
place=$(head -1 "$d/demo_test.go" | sed -n 's#^// place in: *##p' | tr -d ' \r')
[ -z "$place" ] && { echo "no '// place in:' line"; exit 2; }
race=""
head -5 "$d/demo_test.go" | grep -q "run with: *-race" && race="-race"
cd "$wt"
cp "$d/demo_test.go" "$wt/$place/zz_seed_demo_test.go"
if go test $race -vet=off -count=1 "./$place" >/tmp/seed_demo_clean.log 2>&1; then r3=pass; else r3=FAIL; fi
git apply "$d/patch.diff" 2>/dev/null || git apply -3 "$d/patch.diff" >/dev/null 2>&1 || { echo "patch does not apply to HEAD"; exit 2; }
if go test $race -vet=off -count=1 "./$place" >/tmp/seed_demo_mut.log 2>&1; then r2=PASS; else r2=fail; fi
rm "$wt/$place/zz_seed_demo_test.go"
if go test -vet=off -count=1 ./... >/tmp/seed_suite.log 2>&1; then r1=pass; else r1=FAIL; fi
echo "suite-with-change=$r1 demo-with-change=$r2 demo-without-change=$r3"
[ "$r1" = pass ] && [ "$r2" = fail ] && [ "$r3" = pass ]
