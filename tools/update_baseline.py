#!/usr/bin/env python3
"""tools/update_baseline.py: writes baseline_paths.json from the evidence files of a
clean run on the unchanged tree (harness name + parameters -> number of paths). The
check uses it as a path cap (20x) so that a changed tree cannot send a harness into an
unbounded exploration. Only complete (not truncated) runs are recorded."""
import json, glob, os
root = os.path.join(os.path.dirname(os.path.abspath(__file__)), "..")
base = {}
p = os.path.join(root, "baseline_paths.json")
if os.path.exists(p):
    base = json.load(open(p))
for f in sorted(glob.glob(os.path.join(root, "evidence", "C*.json"))):
    e = json.load(open(f))
    for h in e["coverage"]["harnesses"]:
        if not h.get("explored_to_completion"):
            continue
        key = h["name"] + "".join(",%s=%d" % (k, v) for k, v in sorted((h.get("bounds") or {}).items()))
        n = sum(h["paths"].values())
        base[key] = max(base.get(key, 0), n)
json.dump(base, open(p, "w"), indent=0, sort_keys=True)
print(len(base), "harness configurations")
