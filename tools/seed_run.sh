#!/bin/bash
# tools/seed_run.sh <seeded-dir> <property-id>...
# Runs the given checks (quick tier) against a scratch worktree of /repo HEAD with the
# seeded change applied (VERIF_REPO), so /repo itself is not touched. The registered
# checks always run against /repo; this path exists to evaluate seeded changes.
set -u
d=$(realpath "$1"); shift
vd=$(dirname "$(realpath "$0")")/..
wt=$(mktemp -d /tmp/seedrun.XXXXXX)
git -C /repo worktree add -q --detach "$wt" "${SEED_BASE:-HEAD}" || exit 2
export TMPDIR=$(mktemp -d /tmp/seedtmp.XXXXXX) # the engine's scratch module files for VERIF_REPO land here
trap 'git -C /repo worktree remove --force "$wt" >/dev/null 2>&1; rm -rf "$wt" "$TMPDIR"' EXIT
git -C "$wt" apply "$d/patch.diff" 2>/dev/null || git -C "$wt" apply -3 "$d/patch.diff" >/dev/null 2>&1 || { echo "patch does not apply"; exit 2; }
for p in "$@"; do
  out=$(cd "$vd" && VERIF_REPO="$wt" ./check "$p" 2>&1); rc=$?
  echo "== $(basename $d) $p exit=$rc"
  echo "$out" | grep -E "VIOLATION|KNOWN-FINDING|violated:|UNREPRODUCED|MISMATCH|^\[" | cut -c1-260 | head -8
done
