#!/bin/bash
# tools/seed_run.sh <seeded-dir> <property-id>...
# Applies the seeded change to /repo, runs the given checks (quick tier), and undoes it.
set -u
d=$(realpath "$1"); shift
git -C /repo diff --quiet || { echo "/repo has uncommitted changes"; exit 2; }
git -C /repo apply "$d/patch.diff" || { echo "patch does not apply"; exit 2; }
trap 'git -C /repo checkout -- . ' EXIT
for p in "$@"; do
  out=$(cd /verif && ./check "$p" 2>&1); rc=$?
  echo "== $p exit=$rc"
  echo "$out" | grep -E "VIOLATION|KNOWN-FINDING|violated:|UNREPRODUCED|MISMATCH|^\[" | cut -c1-260 | head -12
done
