#!/bin/bash
# tools/seed_eval.sh <prefix> [dir-suffix...]: verify and evaluate the collected changes seeded/<prefix>-C<nn>-m<n>
# with the check of their own property (quick tier); one line per change on stdout.
set -u
pre=$1; shift
cd "$(dirname "$(realpath "$0")")/.."
make -s build >/dev/null 2>&1
for d in seeded/$pre-*; do
  b=$(basename $d); p=$(echo $b | sed -E 's/^[^-]*-(C[0-9]+)-.*/\1/')
  if [ $# -gt 0 ]; then case " $* " in *" $b "*) ;; *) continue;; esac; fi
  v=$(tools/seed_verify.sh $d 2>&1 | tail -1)
  echo "== $b verify: $v"
  case "$v" in *"suite-with-change=pass demo-with-change=fail demo-without-change=pass"*) ;; *) continue;; esac
  s=$(date +%s)
  tools/seed_run.sh $d $p ${EXTRA:-} 2>&1 | grep -E "^==|VIOLATION|UNREPRO" | cut -c1-220 | head -12
  echo "   ($(( $(date +%s) - s ))s)"
done
