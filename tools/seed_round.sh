#!/bin/bash
# tools/seed_round.sh <round-dir> <prefix> <prop> [extra checks...]: collect, verify and evaluate the two changes of one sub-agent
# (prefix: r2, r3, ... -> seeded/<prefix>-<prop>-m<n>)
set -u
rd=$1; pre=$2; p=$3; shift 3
cd "$(dirname "$(realpath "$0")")/.."
for m in m1 m2; do
  src=$rd/$p/out/$m
  [ -f $src/patch.diff ] || { echo "== $pre-$p-$m missing"; continue; }
  d=seeded/$pre-$p-$m; mkdir -p $d; cp $src/patch.diff $src/demo_test.go $src/meta.json $d/ 2>/dev/null
  v=$(tools/seed_verify.sh $d 2>&1 | tail -1)
  echo "== $pre-$p-$m verify: $v"
  case "$v" in *"suite-with-change=pass demo-with-change=fail demo-without-change=pass"*) ;; *) continue;; esac
  tools/seed_run.sh $d $p "$@" 2>&1 | grep -E "^==|VIOLATION|UNREPRO" | cut -c1-200
done
