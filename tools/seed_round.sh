#!/bin/bash
# tools/seed_round.sh <round-dir> <prop> [extra checks...]: collect, verify and evaluate the two changes of one sub-agent
set -u
rd=$1; p=$2; shift 2
cd /verif
for m in m1 m2; do
  src=$rd/$p/out/$m
  [ -f $src/patch.diff ] || { echo "== r2-$p-$m missing"; continue; }
  d=seeded/r2-$p-$m; mkdir -p $d; cp $src/patch.diff $src/demo_test.go $src/meta.json $d/ 2>/dev/null
  v=$(tools/seed_verify.sh $d 2>&1 | tail -1)
  echo "== r2-$p-$m verify: $v"
  case "$v" in *"suite-with-change=pass demo-with-change=fail demo-without-change=pass"*) ;; *) continue;; esac
  tools/seed_run.sh $d $p "$@" 2>&1 | grep -E "^==|VIOLATION|UNREPRO" | cut -c1-200
done
