#!/bin/bash
# runs every quick check once in /verif against /repo (this is what writes the evidence files)
cd "$(dirname "$0")/.." || exit 2
make -s build || exit 2
for c in ${@:-C20 C19 C12 C11 C13 C14 C10 C15 C05 C06 C03 C01 C18 C17 C16 C07 C09 C02 C08 C04}; do
  /usr/bin/time -f "$c wall=%es" ./check $c --tier quick 2>&1 | grep -E "TRUNCATED|unsupported|^\[|VIOLATION|KNOWN|UNREPRO|MISMATCH|wall=|violated:|native:" | cut -c1-300
done
