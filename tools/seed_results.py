#!/usr/bin/env python3
"""tools/seed_results.py <results.json>: merges the evaluation of seeded changes into
their meta.json (checks_run, detected, first_run, strengthened) and prints the
DESIGN.md table rows. results.json: {"<dir>": {"reported_by": ["C01"], "quiet": ["C07"],
"first_run": "missed"|"reported", "strengthened": "<what was added>"}}"""
import json, sys, os
res = json.load(open(sys.argv[1]))
root = os.path.join(os.path.dirname(os.path.abspath(__file__)), "..", "seeded")
rows = []
for d in sorted(res):
    r = res[d]
    p = os.path.join(root, d, "meta.json")
    m = json.load(open(p))
    m["confirmed_by_me"] = "tools/seed_verify.sh: existing suite passes with the change, the demonstration fails with it and passes without it (scratch worktree of /repo HEAD at the time of evaluation)"
    m["checks_run"] = {c: "VIOLATION reported (exit 1)" for c in r.get("reported_by", [])}
    m["checks_run"].update({c: "quiet (exit 0)" for c in r.get("quiet", [])})
    m["detected"] = bool(r.get("reported_by"))
    m["first_run"] = r.get("first_run", "reported")
    if r.get("strengthened"):
        m["strengthened"] = r["strengthened"]
    json.dump(m, open(p, "w"), indent=1)
    needs = m.get("needs", "").replace("|", "/").replace("\n", " ")
    rows.append("| %s | %s | %s | %s |" % (d, m.get("function", "").replace("|", "/")[:90], needs[:110], ", ".join(r.get("reported_by", [])) or "-"))
print("\n".join(rows))
