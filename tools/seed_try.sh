#!/bin/bash
# tools/seed_try.sh <seeded-dir> <prop> <harness-prefix>: run only the harnesses with the given prefix of a check against a scratch worktree with the seeded change
set -u
d=$(realpath "$1"); p=$2; only=$3
vd=$(dirname "$(realpath "$0")")/..
wt=$(mktemp -d /tmp/seedtry.XXXXXX)
git -C /repo worktree add -q --detach "$wt" HEAD || exit 2
export TMPDIR=$(mktemp -d /tmp/seedtmp.XXXXXX) # the engine's scratch module files for VERIF_REPO land here
trap 'git -C /repo worktree remove --force "$wt" >/dev/null 2>&1; rm -rf "$wt" "$TMPDIR"' EXIT
git -C "$wt" apply "$d/patch.diff" 2>/dev/null || git -C "$wt" apply -3 "$d/patch.diff" >/dev/null 2>&1 || { echo "patch does not apply"; exit 2; }
cd "$vd" && VERIF_DIR="$vd" VERIF_REPO="$wt" bin/gosym check -prop "$p" -only "$only" 2>&1 | grep -E "violated:|native:|VIOLATION|^\[" | cut -c1-300 | head -${LINES_MAX:-8}
