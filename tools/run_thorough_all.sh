#!/bin/bash
# runs every thorough check once (background exploration; not evidence)
cd "$(dirname "$0")/.." || exit 2
make -s build || exit 2
for c in C19 C20 C12 C11 C13 C14 C10 C05 C06 C04 C03 C15 C18 C17 C16 C01 C07 C09 C02 C08; do
  /usr/bin/time -f "$c wall=%es" ./check $c --tier thorough 2>&1 | grep -E "TRUNCATED|unsupported|^\[|VIOLATION|KNOWN|UNREPRO|MISMATCH|wall=" | cut -c1-220
done
