#!/usr/bin/env python3
"""tools/func_coverage.py [-v]: which functions of /repo's non-test source were executed
symbolically by the registered checks (union of coverage.functions_encoded over
evidence/*.json), per file. Used to find behaviour no harness reaches yet."""
import json, glob, re, os, sys
from collections import Counter, defaultdict
here = os.path.join(os.path.dirname(os.path.abspath(__file__)), "..")
enc = set()
for f in glob.glob(os.path.join(here, "evidence", "*.json")):
    enc |= set(json.load(open(f)).get("coverage", {}).get("functions_encoded", []))
funcs = {}
for root, ds, fs in os.walk("/repo"):
    if ".git" in root:
        continue
    for f in fs:
        if not f.endswith(".go") or f.endswith("_test.go"):
            continue
        pkg = os.path.relpath(root, "/repo")
        for l in open(os.path.join(root, f)):
            m = re.match(r"func (\((\w+ )?(\*?)(\w+)\) )?(\w+)\(", l)
            if m:
                funcs[(pkg, m.group(4) or "", m.group(5))] = f
def covered(k):
    pkg, recv, name = k
    p = "github.com/elastic/go-structform" + ("" if pkg == "." else "/" + pkg)
    if recv:
        return "(*%s.%s).%s" % (p, recv, name) in enc or "(%s.%s).%s" % (p, recv, name) in enc
    return "%s.%s" % (p, name) in enc
unc = [k for k in funcs if not covered(k)]
print("library functions: %d, executed by some check: %d, not executed: %d" % (len(funcs), len(funcs) - len(unc), len(unc)))
by = defaultdict(list)
for k in unc:
    by[(k[0], funcs[k])].append((k[1] + "." if k[1] else "") + k[2])
for (pkg, f), l in sorted(by.items(), key=lambda x: -len(x[1])):
    print("%4d %s/%s" % (len(l), pkg, f))
    if "-v" in sys.argv:
        print("       " + " ".join(sorted(l)))
