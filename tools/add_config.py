#!/usr/bin/env python3
"""tools/add_config.py <prop> <tiers: quick,thorough> <harness> [K=V ...] [max_steps=N]: append a harness configuration to checks.json (no duplicates)."""
import json, sys, os
p = os.path.join(os.path.dirname(os.path.abspath(__file__)), "..", "checks.json")
ck = json.load(open(p))
prop, tiers, harness = sys.argv[1], sys.argv[2].split(","), sys.argv[3]
cfg = {"harness": harness}
params = {}
for a in sys.argv[4:]:
    k, v = a.split("=")
    if k == "max_steps":
        cfg["max_steps"] = int(v)
    else:
        params[k] = int(v)
if params:
    cfg["params"] = params
for t in tiers:
    l = ck[prop]["tiers"][t]["harnesses"]
    if cfg not in l:
        l.append(cfg)
json.dump(ck, open(p, "w"), indent=1)
