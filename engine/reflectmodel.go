package main

// Tier R spike: reflect modelled on go/types. Types concrete, values symbolic.

import (
	_ "fmt"
	"go/types"
	"reflect"
	"strings"

	"golang.org/x/tools/go/ssa"
)

type RT struct{ t types.Type } // reflect.Type payload

type RV struct { // reflect.Value
	t    types.Type
	v    Val   // value (when not addressable)
	addr *Cell // non-nil: addressable, value lives in cell
}

func (e *Engine) rtypeIface(t types.Type) Iface {
	if t == nil {
		return Iface{}
	}
	return Iface{typ: e.rtypeMarker(), v: RT{t}}
}

var rtypeMarkerT types.Type

// initReflectMarker is called once after loading, before workers start.
func initReflectMarker(prog *ssa.Program) {
	if p := prog.ImportedPackage("reflect"); p != nil {
		rtypeMarkerT = types.NewPointer(p.Pkg.Scope().Lookup("rtype").Type())
	}
}

func (e *Engine) rtypeMarker() types.Type {
	if rtypeMarkerT == nil {
		e.unsupported("package reflect not loaded")
	}
	return rtypeMarkerT
}

func reflectIntrinsicFor(name string) intrinsicFn {
	// internal/reflectlite (sort.Slice, errors): the same model under the reflect names
	if strings.Contains(name, "internal/reflectlite.") {
		name = strings.Replace(name, "internal/reflectlite.", "reflect.", 1)
	}
	if !strings.HasPrefix(name, "reflect.") && !strings.HasPrefix(name, "(reflect.") && !strings.HasPrefix(name, "(*reflect.") {
		return nil
	}
	return func(e *Engine, fn *ssa.Function, a []Val) Val {
		r, ok := e.reflectIntrinsic(name, fn, a)
		if !ok {
			e.unsupported("reflect model: %s", name)
		}
		return r
	}
}

func (e *Engine) reflectNamed(name string) types.Type {
	return e.prog.ImportedPackage("reflect").Pkg.Scope().Lookup(name).Type()
}

func (e *Engine) rvGet(r RV) Val {
	if r.addr != nil {
		return e.load(r.addr)
	}
	return r.v
}

func kindOf(t types.Type) reflect.Kind {
	switch u := t.Underlying().(type) {
	case *types.Basic:
		switch u.Kind() {
		case types.Bool:
			return reflect.Bool
		case types.Int:
			return reflect.Int
		case types.Int8:
			return reflect.Int8
		case types.Int16:
			return reflect.Int16
		case types.Int32:
			return reflect.Int32
		case types.Int64:
			return reflect.Int64
		case types.Uint:
			return reflect.Uint
		case types.Uint8:
			return reflect.Uint8
		case types.Uint16:
			return reflect.Uint16
		case types.Uint32:
			return reflect.Uint32
		case types.Uint64:
			return reflect.Uint64
		case types.Uintptr:
			return reflect.Uintptr
		case types.Float32:
			return reflect.Float32
		case types.Float64:
			return reflect.Float64
		case types.String:
			return reflect.String
		case types.UnsafePointer:
			return reflect.UnsafePointer
		}
	case *types.Pointer:
		return reflect.Ptr
	case *types.Struct:
		return reflect.Struct
	case *types.Slice:
		return reflect.Slice
	case *types.Array:
		return reflect.Array
	case *types.Map:
		return reflect.Map
	case *types.Interface:
		return reflect.Interface
	case *types.Signature:
		return reflect.Func
	case *types.Chan:
		return reflect.Chan
	}
	return reflect.Invalid
}

func (e *Engine) structField(st *types.Struct, i int) Val {
	sf := e.reflectNamed("StructField").Underlying().(*types.Struct)
	a := Agg{f: make([]Val, sf.NumFields())}
	f := st.Field(i)
	offs := e.sizes.Offsetsof(fieldVars(st))
	for j := 0; j < sf.NumFields(); j++ {
		switch sf.Field(j).Name() {
		case "Name":
			a.f[j] = e.stringVal(f.Name())
		case "PkgPath":
			if f.Exported() {
				a.f[j] = e.stringVal("")
			} else {
				a.f[j] = e.stringVal(f.Pkg().Path())
			}
		case "Type":
			a.f[j] = e.rtypeIface(f.Type())
		case "Tag":
			a.f[j] = e.stringVal(st.Tag(i))
		case "Offset":
			a.f[j] = e.K(64, uint64(offs[i]))
		case "Index":
			a.f[j] = Slice{}
		case "Anonymous":
			a.f[j] = e.KB(f.Embedded())
		default:
			a.f[j] = e.zero(sf.Field(j).Type())
		}
	}
	return a
}

func (e *Engine) reflectIntrinsic(name string, fn *ssa.Function, a []Val) (Val, bool) {
	switch name {
	case "reflect.TypeOf":
		return e.rtypeIface(a[0].(Iface).typ), true
	case "reflect.ValueOf":
		i := a[0].(Iface)
		if i.typ == nil {
			return RV{}, true
		}
		return RV{t: i.typ, v: i.v}, true
	case "reflect.Swapper":
		i := a[0].(Iface)
		sl, ok := i.v.(Slice)
		if i.typ == nil || !ok {
			e.goPanic("reflect: call of Swapper on a non-slice")
		}
		return NativeFn(func(e *Engine, args []Val) Val {
			x := e.boundedIndex(e.tf.Resize(args[0].(*Term), 64, true), sl.len, false, "Swapper index")
			y := e.boundedIndex(e.tf.Resize(args[1].(*Term), 64, true), sl.len, false, "Swapper index")
			cx, cy := sl.arr.kids[sl.off+x], sl.arr.kids[sl.off+y]
			vx, vy := e.load(cx), e.load(cy)
			e.store(cx, vy)
			e.store(cy, vx)
			return nil
		}), true
	case "reflect.PtrTo", "reflect.PointerTo":
		return e.rtypeIface(types.NewPointer(a[0].(Iface).v.(RT).t)), true
	case "reflect.SliceOf":
		return e.rtypeIface(types.NewSlice(a[0].(Iface).v.(RT).t)), true
	case "reflect.MapOf":
		return e.rtypeIface(types.NewMap(a[0].(Iface).v.(RT).t, a[1].(Iface).v.(RT).t)), true
	case "reflect.New":
		t := a[0].(Iface).v.(RT).t
		return RV{t: types.NewPointer(t), v: Ptr{c: e.newCell(t)}}, true
	case "reflect.NewAt":
		t := a[0].(Iface).v.(RT).t
		p, ok := a[1].(Ptr)
		if !ok {
			e.unsupported("reflect.NewAt with %T", a[1])
		}
		if p.c != nil {
			c := e.viewAs(e.resolve(p, "reflect.NewAt"), t)
			if !shapeCompatible(c.typ, t) && !(isAggType(c.typ) == isAggType(t) && e.sizes.Sizeof(c.typ) == e.sizes.Sizeof(t)) {
				e.goPanic("invalid reinterpretation: reflect.NewAt(%v) over memory of type %v", t, c.typ)
			}
			p = Ptr{c: c}
		}
		return RV{t: types.NewPointer(t), v: p}, true
	case "reflect.Zero":
		t := a[0].(Iface).v.(RT).t
		return RV{t: t, v: e.zero(t)}, true
	case "reflect.ArrayOf":
		n := a[0].(*Term)
		if !n.IsConst() {
			e.unsupported("reflect.ArrayOf with symbolic length")
		}
		return e.rtypeIface(types.NewArray(a[1].(Iface).v.(RT).t, int64(n.C))), true
	case "reflect.MakeSlice":
		t := a[0].(Iface).v.(RT).t
		et := t.Underlying().(*types.Slice).Elem()
		lt, ct := e.tf.Resize(a[1].(*Term), 64, true), e.tf.Resize(a[2].(*Term), 64, true)
		e.allocGuard(ct, int(e.sizes.Sizeof(et)))
		c := e.boundedIndex(ct, e.run.allocLimit(), true, "reflect.MakeSlice cap")
		n := e.boundedIndex(lt, c, true, "reflect.MakeSlice len")
		return RV{t: t, v: Slice{arr: e.newArray(et, c), len: n, cap: c}}, true
	case "reflect.MakeMap", "reflect.MakeMapWithSize":
		t := a[0].(Iface).v.(RT).t
		if name == "reflect.MakeMapWithSize" {
			// the size hint pre-allocates buckets: an allocation like any other
			e.allocGuard(e.tf.Resize(a[1].(*Term), 64, true), 16)
		}
		return RV{t: t, v: &MapObj{epoch: e.epoch, kt: t.Underlying().(*types.Map).Key(), vt: t.Underlying().(*types.Map).Elem()}}, true
	case "reflect.Append":
		r := a[0].(RV)
		s, ok := e.rvGet(r).(Slice)
		if !ok {
			e.unsupported("reflect.Append on %T", e.rvGet(r))
		}
		et := r.t.Underlying().(*types.Slice).Elem()
		xs := a[1].(Slice)
		for i := 0; i < xs.len; i++ {
			x := e.load(xs.arr.kids[xs.off+i]).(RV)
			v := e.rvGet(x)
			if _, isI := et.Underlying().(*types.Interface); isI {
				if _, already := v.(Iface); !already {
					v = Iface{typ: x.t, v: v}
				}
			}
			if s.len < s.cap {
				e.store(s.arr.kids[s.off+s.len], v)
				s.len++
				continue
			}
			ncap := growCap(s.cap, s.len+1, int(e.sizes.Sizeof(et)))
			arr := e.newArray(et, ncap)
			for j := 0; j < s.len; j++ {
				e.store(arr.kids[j], e.load(s.arr.kids[s.off+j]))
			}
			e.store(arr.kids[s.len], v)
			s = Slice{arr: arr, len: s.len + 1, cap: ncap}
		}
		return RV{t: r.t, v: s}, true
	case "(reflect.StructTag).Get":
		return e.stringVal(reflect.StructTag(e.goString(a[0])).Get(e.goString(a[1]))), true
	}
	if !strings.HasPrefix(name, "(reflect.Value).") {
		return nil, false
	}
	m := strings.TrimPrefix(name, "(reflect.Value).")
	r := a[0].(RV)
	switch m {
	case "Type":
		return e.rtypeIface(r.t), true
	case "Kind":
		if r.t == nil {
			return e.K(64, 0), true
		}
		return e.K(64, uint64(kindOf(r.t))), true
	case "IsValid":
		return e.KB(r.t != nil), true
	case "Field":
		i := int(a[1].(*Term).C)
		st, isStruct := r.t.Underlying().(*types.Struct)
		if !isStruct {
			e.goPanic("reflect: call of reflect.Value.Field on %v Value", r.t)
		}
		if r.addr != nil {
			return RV{t: st.Field(i).Type(), addr: r.addr.kids[i]}, true
		}
		return RV{t: st.Field(i).Type(), v: r.v.(Agg).f[i]}, true
	case "Len":
		switch v := e.rvGet(r).(type) {
		case Slice:
			return e.K(64, uint64(v.len)), true
		case Agg:
			return e.K(64, uint64(len(v.f))), true
		case *MapObj:
			if v == nil {
				return e.K(64, 0), true
			}
			return e.K(64, uint64(len(v.keys))), true
		}
	case "Index":
		switch v := e.rvGet(r).(type) {
		case Slice:
			i := e.boundedIndex(e.tf.Resize(a[1].(*Term), 64, true), v.len-1, true, "reflect.Value.Index")
			if v.str {
				return RV{t: types.Typ[types.Uint8], v: e.load(v.arr.kids[v.off+i])}, true
			}
			et := r.t.Underlying().(*types.Slice).Elem()
			return RV{t: et, addr: v.arr.kids[v.off+i]}, true
		case Agg:
			i := e.boundedIndex(e.tf.Resize(a[1].(*Term), 64, true), len(v.f)-1, true, "reflect.Value.Index")
			et := r.t.Underlying().(*types.Array).Elem()
			if r.addr != nil {
				return RV{t: et, addr: r.addr.kids[i]}, true
			}
			return RV{t: et, v: v.f[i]}, true
		}
	case "IsNil":
		switch v := e.rvGet(r).(type) {
		case Ptr:
			return e.KB(v.c == nil), true
		case Slice:
			return e.KB(v.arr == nil), true
		case Iface:
			return e.KB(v.typ == nil), true
		case *MapObj:
			return e.KB(v == nil), true
		case nil:
			return e.KB(true), true
		}
		if r.t != nil {
			switch r.t.Underlying().(type) {
			case *types.Struct, *types.Array, *types.Basic:
				e.goPanic("reflect: call of reflect.Value.IsNil on %v Value", r.t)
			}
		}
	case "Elem":
		switch v := e.rvGet(r).(type) {
		case Ptr:
			if v.c == nil {
				return RV{}, true
			}
			return RV{t: r.t.Underlying().(*types.Pointer).Elem(), addr: v.c}, true
		case Iface:
			if v.typ == nil {
				return RV{}, true
			}
			return RV{t: v.typ, v: v.v}, true
		}
	case "Interface":
		if r.t == nil {
			e.goPanic("reflect: call of reflect.Value.Interface on zero Value")
		}
		if _, isIface := r.t.Underlying().(*types.Interface); isIface {
			// a Value of interface kind (struct field, element): the value it holds
			if in, ok := e.rvGet(r).(Iface); ok {
				return in, true
			}
			return Iface{}, true
		}
		return Iface{typ: r.t, v: e.rvGet(r)}, true
	case "Int":
		_, sg, _ := intWidth(r.t)
		return e.tf.Resize(e.rvGet(r).(*Term), 64, sg), true
	case "Uint":
		return e.tf.Resize(e.rvGet(r).(*Term), 64, false), true
	case "Float":
		t := e.rvGet(r).(*Term)
		return e.tf.FCvt(t, 64), true
	case "Bool":
		return e.rvGet(r), true
	case "String":
		return e.rvGet(r), true
	case "CanAddr", "CanSet":
		return e.KB(r.addr != nil), true
	case "CanInterface":
		return e.KB(true), true
	case "NumField":
		return e.K(64, uint64(r.t.Underlying().(*types.Struct).NumFields())), true
	case "Cap":
		switch v := e.rvGet(r).(type) {
		case Slice:
			return e.K(64, uint64(v.cap)), true
		case Agg:
			return e.K(64, uint64(len(v.f))), true
		}
	case "Set":
		x := a[1].(RV)
		if r.addr == nil {
			e.goPanic("reflect: reflect.Value.Set using unaddressable value")
		}
		v := e.rvGet(x)
		if _, isI := r.t.Underlying().(*types.Interface); isI {
			if _, already := v.(Iface); !already {
				if x.t == nil {
					v = Iface{}
				} else {
					v = Iface{typ: x.t, v: v}
				}
			}
		} else if x.t != nil && !shapeCompatible(x.t, r.t) {
			e.goPanic("reflect.Set: value of type %v is not assignable to type %v", x.t, r.t)
		}
		e.store(r.addr, v)
		return nil, true
	case "SetLen":
		if r.addr == nil {
			e.goPanic("reflect: reflect.Value.SetLen using unaddressable value")
		}
		s := e.load(r.addr).(Slice)
		n := e.boundedIndex(e.tf.Resize(a[1].(*Term), 64, true), s.cap, true, "reflect.SetLen")
		s.len = n
		e.store(r.addr, s)
		return nil, true
	case "SetMapIndex":
		mo, ok := e.rvGet(r).(*MapObj)
		if !ok {
			e.unsupported("SetMapIndex on %T", e.rvGet(r))
		}
		if mo == nil {
			e.goPanic("assignment to entry in nil map")
		}
		k, x := a[1].(RV), a[2].(RV)
		if mo.kt != nil && k.t != nil && !shapeCompatible(mo.kt, k.t) {
			e.goPanic("reflect.Value.SetMapIndex: value of type %v is not assignable to type %v", k.t, mo.kt)
		}
		v := e.rvGet(x)
		if _, isI := r.t.Underlying().(*types.Map).Elem().Underlying().(*types.Interface); isI {
			if _, already := v.(Iface); !already {
				v = Iface{typ: x.t, v: v}
			}
		}
		e.mapUpdate(mo, e.rvGet(k), v)
		return nil, true
	case "IsZero":
		switch v := e.rvGet(r).(type) {
		case *Term:
			return e.tf.Eq(v, e.K(int(v.W), 0)), true
		case Slice:
			if v.str {
				return e.KB(v.len == 0), true
			}
			return e.KB(v.arr == nil), true
		case Ptr:
			return e.KB(v.c == nil), true
		case Iface:
			return e.KB(v.typ == nil), true
		case *MapObj:
			return e.KB(v == nil), true
		}
	case "Slice":
		s, ok := e.rvGet(r).(Slice)
		if !ok {
			e.unsupported("reflect.Value.Slice on %T", e.rvGet(r))
		}
		lo := e.boundedIndex(e.tf.Resize(a[1].(*Term), 64, true), s.cap, true, "reflect.Slice lo")
		hi := e.boundedIndex(e.tf.Resize(a[2].(*Term), 64, true), s.cap, true, "reflect.Slice hi")
		if lo > hi {
			e.goPanic("reflect.Value.Slice: slice index out of bounds")
		}
		return RV{t: r.t, v: Slice{arr: s.arr, off: s.off + lo, len: hi - lo, cap: s.cap - lo, str: s.str}}, true
	case "UnsafeAddr":
		if r.addr == nil {
			e.goPanic("reflect.Value.UnsafeAddr of unaddressable value")
		}
		return Ptr{c: r.addr, raw: true}, true
	case "Addr":
		return RV{t: types.NewPointer(r.t), v: Ptr{c: r.addr}}, true
	case "Pointer", "UnsafePointer":
		switch v := e.rvGet(r).(type) {
		case Ptr:
			if v.c == nil {
				return e.K(64, 0), true
			}
			v.raw = m == "Pointer" // uintptr with provenance
			return v, true
		case Slice:
			if v.arr == nil || v.off >= len(v.arr.kids) {
				return e.K(64, 0), true
			}
			return Ptr{c: v.arr.kids[v.off], raw: m == "Pointer"}, true
		case *MapObj:
			// the pointer a map value consists of: modelled as a pointer to a box that
			// holds the map object; a load of map type through it yields the map again
			if v == nil {
				return e.K(64, 0), true
			}
			box := &Cell{typ: r.t, val: v, epoch: e.epoch}
			return Ptr{c: box, raw: m == "Pointer"}, true
		}
	case "MapKeys":
		mo := e.rvGet(r).(*MapObj)
		kt := r.t.Underlying().(*types.Map).Key()
		n := 0
		if mo != nil {
			n = len(mo.keys)
		}
		arr := e.newArray(e.reflectNamed("Value"), n)
		for i := 0; i < n; i++ {
			arr.kids[i].val = RV{t: kt, v: mo.keys[i]}
		}
		return Slice{arr: arr, len: n, cap: n}, true
	case "MapIndex":
		mo := e.rvGet(r).(*MapObj)
		k := a[1].(RV)
		for i := range mo.keys {
			if e.decide(e.valEq(mo.keys[i], e.rvGet(k))) {
				return RV{t: r.t.Underlying().(*types.Map).Elem(), v: mo.vals[i]}, true
			}
		}
		return RV{}, true
	case "Convert":
		to := a[1].(Iface).v.(RT).t
		v := e.rvGet(r)
		if t, isT := v.(*Term); isT {
			v = e.convert(t, r.t, to)
		}
		return RV{t: to, v: v}, true
	}
	e.unsupported("reflect.Value.%s on %T", m, e.rvGet(r))
	return nil, true
}

func (e *Engine) reflectTypeMethod(rt RT, m string, a []Val) Val {
	t := rt.t
	switch m {
	case "Kind":
		return e.K(64, uint64(kindOf(t)))
	case "Elem":
		switch u := t.Underlying().(type) {
		case *types.Pointer:
			return e.rtypeIface(u.Elem())
		case *types.Slice:
			return e.rtypeIface(u.Elem())
		case *types.Array:
			return e.rtypeIface(u.Elem())
		case *types.Map:
			return e.rtypeIface(u.Elem())
		}
		e.goPanic("reflect: Elem of invalid type %v", t)
	case "Key":
		return e.rtypeIface(t.Underlying().(*types.Map).Key())
	case "NumField":
		return e.K(64, uint64(t.Underlying().(*types.Struct).NumFields()))
	case "Field":
		return e.structField(t.Underlying().(*types.Struct), int(a[0].(*Term).C))
	case "Name":
		if n, ok := t.(*types.Named); ok {
			return e.stringVal(n.Obj().Name())
		}
		if b, ok := t.(*types.Basic); ok {
			return e.stringVal(b.Name())
		}
		return e.stringVal("")
	case "Implements":
		it := a[0].(Iface).v.(RT).t.Underlying().(*types.Interface)
		return e.KB(types.Implements(t, it))
	case "Len":
		return e.K(64, uint64(t.Underlying().(*types.Array).Len()))
	case "String":
		return e.stringVal(t.String())
	case "NumIn", "NumOut", "In", "Out", "IsVariadic":
		sig, ok := t.Underlying().(*types.Signature)
		if !ok {
			e.goPanic("reflect: %s of non-func type %v", m, t)
		}
		switch m {
		case "NumIn":
			return e.K(64, uint64(sig.Params().Len()))
		case "NumOut":
			return e.K(64, uint64(sig.Results().Len()))
		case "IsVariadic":
			return e.KB(sig.Variadic())
		}
		tup := sig.Params()
		if m == "Out" {
			tup = sig.Results()
		}
		i := int(a[0].(*Term).C)
		if i < 0 || i >= tup.Len() {
			e.goPanic("reflect: Func index out of bounds")
		}
		return e.rtypeIface(tup.At(i).Type())
	case "Size":
		return e.K(64, uint64(e.sizes.Sizeof(t)))
	case "Align", "FieldAlign":
		return e.K(64, uint64(e.sizes.Alignof(t)))
	case "Bits":
		if w, _, ok := intWidth(t); ok && w > 0 {
			return e.K(64, uint64(w))
		}
		e.goPanic("reflect: Bits of non-arithmetic Type %v", t)
	case "PkgPath":
		if n, ok := t.(*types.Named); ok && n.Obj().Pkg() != nil {
			return e.stringVal(n.Obj().Pkg().Path())
		}
		return e.stringVal("")
	case "Comparable":
		return e.KB(types.Comparable(t))
	case "NumMethod":
		// reflect counts exported methods only, except for interface types
		ms := types.NewMethodSet(t)
		_, isIface := t.Underlying().(*types.Interface)
		n := 0
		for i := 0; i < ms.Len(); i++ {
			if isIface || ms.At(i).Obj().Exported() {
				n++
			}
		}
		return e.K(64, uint64(n))
	case "AssignableTo":
		return e.KB(types.AssignableTo(t, a[0].(Iface).v.(RT).t))
	case "ConvertibleTo":
		return e.KB(types.ConvertibleTo(t, a[0].(Iface).v.(RT).t))
	}
	e.unsupported("reflect.Type.%s on %v", m, t)
	return nil
}
