package main

// Tier R spike: reflect modelled on go/types. Types concrete, values symbolic.

import (
	_ "fmt"
	"go/types"
	"reflect"
	"strings"
	
	"golang.org/x/tools/go/ssa"
)

type RT struct{ t types.Type } // reflect.Type payload

type RV struct { // reflect.Value
	t    types.Type
	v    Val   // value (when not addressable)
	addr *Cell // non-nil: addressable, value lives in cell
}

func (e *Engine) rtypeIface(t types.Type) Iface {
	if t == nil {
		return Iface{}
	}
	return Iface{typ: e.rtypeMarker(), v: RT{t}}
}

var rtypeMarkerT types.Type

// initReflectMarker is called once after loading, before workers start.
func initReflectMarker(prog *ssa.Program) {
	if p := prog.ImportedPackage("reflect"); p != nil {
		rtypeMarkerT = types.NewPointer(p.Pkg.Scope().Lookup("rtype").Type())
	}
}

func (e *Engine) rtypeMarker() types.Type {
	if rtypeMarkerT == nil {
		e.unsupported("package reflect not loaded")
	}
	return rtypeMarkerT
}

func reflectIntrinsicFor(name string) intrinsicFn {
	if !strings.HasPrefix(name, "reflect.") && !strings.HasPrefix(name, "(reflect.") && !strings.HasPrefix(name, "(*reflect.") {
		return nil
	}
	return func(e *Engine, fn *ssa.Function, a []Val) Val {
		r, ok := e.reflectIntrinsic(name, fn, a)
		if !ok {
			e.unsupported("reflect model: %s", name)
		}
		return r
	}
}

func (e *Engine) reflectNamed(name string) types.Type {
	return e.prog.ImportedPackage("reflect").Pkg.Scope().Lookup(name).Type()
}


func (e *Engine) rvGet(r RV) Val {
	if r.addr != nil {
		return e.load(r.addr)
	}
	return r.v
}

func kindOf(t types.Type) reflect.Kind {
	switch u := t.Underlying().(type) {
	case *types.Basic:
		switch u.Kind() {
		case types.Bool:
			return reflect.Bool
		case types.Int:
			return reflect.Int
		case types.Int8:
			return reflect.Int8
		case types.Int16:
			return reflect.Int16
		case types.Int32:
			return reflect.Int32
		case types.Int64:
			return reflect.Int64
		case types.Uint:
			return reflect.Uint
		case types.Uint8:
			return reflect.Uint8
		case types.Uint16:
			return reflect.Uint16
		case types.Uint32:
			return reflect.Uint32
		case types.Uint64:
			return reflect.Uint64
		case types.Uintptr:
			return reflect.Uintptr
		case types.Float32:
			return reflect.Float32
		case types.Float64:
			return reflect.Float64
		case types.String:
			return reflect.String
		case types.UnsafePointer:
			return reflect.UnsafePointer
		}
	case *types.Pointer:
		return reflect.Ptr
	case *types.Struct:
		return reflect.Struct
	case *types.Slice:
		return reflect.Slice
	case *types.Array:
		return reflect.Array
	case *types.Map:
		return reflect.Map
	case *types.Interface:
		return reflect.Interface
	case *types.Signature:
		return reflect.Func
	case *types.Chan:
		return reflect.Chan
	}
	return reflect.Invalid
}


func (e *Engine) structField(st *types.Struct, i int) Val {
	sf := e.reflectNamed("StructField").Underlying().(*types.Struct)
	a := Agg{f: make([]Val, sf.NumFields())}
	f := st.Field(i)
	offs := e.sizes.Offsetsof(fieldVars(st))
	for j := 0; j < sf.NumFields(); j++ {
		switch sf.Field(j).Name() {
		case "Name":
			a.f[j] = e.stringVal(f.Name())
		case "PkgPath":
			if f.Exported() {
				a.f[j] = e.stringVal("")
			} else {
				a.f[j] = e.stringVal(f.Pkg().Path())
			}
		case "Type":
			a.f[j] = e.rtypeIface(f.Type())
		case "Tag":
			a.f[j] = e.stringVal(st.Tag(i))
		case "Offset":
			a.f[j] = e.K(64, uint64(offs[i]))
		case "Index":
			a.f[j] = Slice{}
		case "Anonymous":
			a.f[j] = e.KB(f.Embedded())
		default:
			a.f[j] = e.zero(sf.Field(j).Type())
		}
	}
	return a
}


func (e *Engine) reflectIntrinsic(name string, fn *ssa.Function, a []Val) (Val, bool) {
	switch name {
	case "reflect.TypeOf":
		return e.rtypeIface(a[0].(Iface).typ), true
	case "reflect.ValueOf":
		i := a[0].(Iface)
		if i.typ == nil {
			return RV{}, true
		}
		return RV{t: i.typ, v: i.v}, true
	case "reflect.PtrTo", "reflect.PointerTo":
		return e.rtypeIface(types.NewPointer(a[0].(Iface).v.(RT).t)), true
	case "reflect.SliceOf":
		return e.rtypeIface(types.NewSlice(a[0].(Iface).v.(RT).t)), true
	case "reflect.MapOf":
		return e.rtypeIface(types.NewMap(a[0].(Iface).v.(RT).t, a[1].(Iface).v.(RT).t)), true
	case "reflect.New":
		t := a[0].(Iface).v.(RT).t
		return RV{t: types.NewPointer(t), v: Ptr{c: e.newCell(t)}}, true
	case "(reflect.StructTag).Get":
		return e.stringVal(reflect.StructTag(e.goString(a[0])).Get(e.goString(a[1]))), true
	}
	if !strings.HasPrefix(name, "(reflect.Value).") {
		return nil, false
	}
	m := strings.TrimPrefix(name, "(reflect.Value).")
	r := a[0].(RV)
	switch m {
	case "Type":
		return e.rtypeIface(r.t), true
	case "Kind":
		if r.t == nil {
			return e.K(64, 0), true
		}
		return e.K(64, uint64(kindOf(r.t))), true
	case "IsValid":
		return e.KB(r.t != nil), true
	case "Field":
		i := int(a[1].(*Term).C)
		st := r.t.Underlying().(*types.Struct)
		if r.addr != nil {
			return RV{t: st.Field(i).Type(), addr: r.addr.kids[i]}, true
		}
		return RV{t: st.Field(i).Type(), v: r.v.(Agg).f[i]}, true
	case "Len":
		switch v := e.rvGet(r).(type) {
		case Slice:
			return e.K(64, uint64(v.len)), true
		case Agg:
			return e.K(64, uint64(len(v.f))), true
		case *MapObj:
			if v == nil {
				return e.K(64, 0), true
			}
			return e.K(64, uint64(len(v.keys))), true
		}
	case "Index":
		i := int(a[1].(*Term).C)
		switch v := e.rvGet(r).(type) {
		case Slice:
			et := r.t.Underlying().(*types.Slice).Elem()
			return RV{t: et, addr: v.arr.kids[v.off+i]}, true
		case Agg:
			return RV{t: r.t.Underlying().(*types.Array).Elem(), v: v.f[i]}, true
		}
	case "IsNil":
		switch v := e.rvGet(r).(type) {
		case Ptr:
			return e.KB(v.c == nil), true
		case Slice:
			return e.KB(v.arr == nil), true
		case Iface:
			return e.KB(v.typ == nil), true
		case *MapObj:
			return e.KB(v == nil), true
		case nil:
			return e.KB(true), true
		}
	case "Elem":
		switch v := e.rvGet(r).(type) {
		case Ptr:
			if v.c == nil {
				return RV{}, true
			}
			return RV{t: r.t.Underlying().(*types.Pointer).Elem(), addr: v.c}, true
		case Iface:
			if v.typ == nil {
				return RV{}, true
			}
			return RV{t: v.typ, v: v.v}, true
		}
	case "Interface":
		return Iface{typ: r.t, v: e.rvGet(r)}, true
	case "Int":
		_, sg, _ := intWidth(r.t)
		return e.tf.Resize(e.rvGet(r).(*Term), 64, sg), true
	case "Uint":
		return e.tf.Resize(e.rvGet(r).(*Term), 64, false), true
	case "Float":
		t := e.rvGet(r).(*Term)
		if t.W != 64 {
			e.unsupported("float32 widening")
		}
		return t, true
	case "Bool":
		return e.rvGet(r), true
	case "String":
		return e.rvGet(r), true
	case "CanAddr":
		return e.KB(r.addr != nil), true
	case "Addr":
		return RV{t: types.NewPointer(r.t), v: Ptr{c: r.addr}}, true
	case "Pointer":
		switch v := e.rvGet(r).(type) {
		case Ptr:
			return v, true // uintptr with provenance (spike: same value)
		}
	case "MapKeys":
		mo := e.rvGet(r).(*MapObj)
		kt := r.t.Underlying().(*types.Map).Key()
		n := 0
		if mo != nil {
			n = len(mo.keys)
		}
		arr := e.newArray(e.reflectNamed("Value"), n)
		for i := 0; i < n; i++ {
			arr.kids[i].val = RV{t: kt, v: mo.keys[i]}
		}
		return Slice{arr: arr, len: n, cap: n}, true
	case "MapIndex":
		mo := e.rvGet(r).(*MapObj)
		k := a[1].(RV)
		for i := range mo.keys {
			if e.decide(e.valEq(mo.keys[i], e.rvGet(k))) {
				return RV{t: r.t.Underlying().(*types.Map).Elem(), v: mo.vals[i]}, true
			}
		}
		return RV{}, true
	case "Convert":
		return RV{t: a[1].(Iface).v.(RT).t, v: e.rvGet(r)}, true
	}
	e.unsupported("reflect.Value.%s on %T", m, e.rvGet(r))
	return nil, true
}

func (e *Engine) reflectTypeMethod(rt RT, m string, a []Val) Val {
	t := rt.t
	switch m {
	case "Kind":
		return e.K(64, uint64(kindOf(t)))
	case "Elem":
		switch u := t.Underlying().(type) {
		case *types.Pointer:
			return e.rtypeIface(u.Elem())
		case *types.Slice:
			return e.rtypeIface(u.Elem())
		case *types.Array:
			return e.rtypeIface(u.Elem())
		case *types.Map:
			return e.rtypeIface(u.Elem())
		}
	case "Key":
		return e.rtypeIface(t.Underlying().(*types.Map).Key())
	case "NumField":
		return e.K(64, uint64(t.Underlying().(*types.Struct).NumFields()))
	case "Field":
		return e.structField(t.Underlying().(*types.Struct), int(a[0].(*Term).C))
	case "Name":
		if n, ok := t.(*types.Named); ok {
			return e.stringVal(n.Obj().Name())
		}
		if b, ok := t.(*types.Basic); ok {
			return e.stringVal(b.Name())
		}
		return e.stringVal("")
	case "Implements":
		it := a[0].(Iface).v.(RT).t.Underlying().(*types.Interface)
		return e.KB(types.Implements(t, it))
	case "Len":
		return e.K(64, uint64(t.Underlying().(*types.Array).Len()))
	case "String":
		return e.stringVal(t.String())
	}
	e.unsupported("reflect.Type.%s on %v", m, t)
	return nil
}

