package main

import (
	"fmt"
	"go/types"
	"math"
	"os"
	"sort"
	"strconv"
	"strings"
	"sync"
	"time"

	"golang.org/x/tools/go/ssa"
)

func parseFloatNative(s string, bits int) (uint64, error) {
	f, err := strconv.ParseFloat(s, bits)
	return math.Float64bits(f), err
}

func appendFloatNative(fb uint64, fmtc byte, prec, bits int) []byte {
	return strconv.AppendFloat(nil, math.Float64frombits(fb), fmtc, prec, bits)
}

// ---------------------------------------------------------------- per-path records

type choiceRec struct {
	Name string
	V    int
}

type obsRec struct {
	Label string
	T     []*Term
}

type AssertCount struct {
	Reached, Trivial, Proved, Violated, Inconclusive int
}

type Candidate struct {
	Harness  string            `json:"harness"`
	Params   map[string]int    `json:"params"`
	Kind     string            `json:"kind"` // assert | panic | hang | unsupported
	ID       string            `json:"id"`
	Tags     []string          `json:"tags"`
	Values   map[string]uint64 `json:"values"`
	Msg      string            `json:"msg,omitempty"`
	Observed map[string]string `json:"predicted,omitempty"`
}

func (c *Candidate) classKey() string {
	t := append([]string{}, c.Tags...)
	sort.Strings(t)
	return c.Harness + "|" + c.Kind + "|" + c.ID + "|" + strings.Join(t, ",")
}

type PathResult struct {
	Status         string
	Msg            string
	Uncertain      int
	Asserts        map[string]*AssertCount
	Tags           []string
	Reached        []string
	Inputs         []inputRec
	Choices        []choiceRec
	Observes       []obsRec
	ParseFloatArgs [][]*Term
	pfMemo         map[string]*Term
	MapOrder       bool
	GlobalStores   map[string]bool
	Conflicts      map[string]bool
	Candidates     []*Candidate
	AllocLimit     int
	Steps          int
	NDecisions     int
	Sample         *Candidate // concrete witness of this path (for samples / trace validation)
	Unsupp         *Candidate // concrete inputs of a path the engine could not follow
	PanicStack     []string
}

func (p *PathResult) assertRec(id string) *AssertCount {
	if p.Asserts == nil {
		p.Asserts = map[string]*AssertCount{}
	}
	r := p.Asserts[id]
	if r == nil {
		r = &AssertCount{}
		p.Asserts[id] = r
	}
	return r
}

func (p *PathResult) noteConflict(what string) {
	if p.Conflicts == nil {
		p.Conflicts = map[string]bool{}
	}
	p.Conflicts[what] = true
}

func (p *PathResult) noteGlobalStore(where string) {
	if p.GlobalStores == nil {
		p.GlobalStores = map[string]bool{}
	}
	p.GlobalStores[where] = true
}

// concreteValues evaluates all named inputs and choices under m.
func (p *PathResult) concreteValues(e *Engine, m Model) map[string]uint64 {
	vals := map[string]uint64{}
	for _, in := range p.Inputs {
		if in.T.IsConst() {
			vals[in.Name] = in.T.C
			continue
		}
		vals[in.Name] = m[in.Name] & mask(in.W)
	}
	for _, c := range p.Choices {
		vals[c.Name] = uint64(int64(c.V))
	}
	return vals
}

func (p *PathResult) predicted(e *Engine, m Model) map[string]string {
	if len(p.Observes) == 0 {
		return nil
	}
	out := map[string]string{}
	e.ev.Eval(e.KB(true), m)
	for _, o := range p.Observes {
		var sb strings.Builder
		for i, t := range o.T {
			if i > 0 {
				sb.WriteByte(' ')
			}
			fmt.Fprintf(&sb, "%x", e.ev.EvalMore(t, m))
		}
		key := o.Label
		for k := 2; ; k++ {
			if _, dup := out[key]; !dup {
				break
			}
			key = fmt.Sprintf("%s~%d", o.Label, k)
		}
		out[key] = sb.String()
	}
	return out
}

func (p *PathResult) addViolation(e *Engine, kind, id string, m Model, msg string) {
	c := &Candidate{Harness: e.run.Name, Params: e.run.Params, Kind: kind, ID: id, Tags: append([]string{}, p.Tags...), Msg: msg}
	if m != nil {
		c.Values = p.concreteValues(e, m)
	}
	p.Candidates = append(p.Candidates, c)
}

// ---------------------------------------------------------------- harness run (aggregated over paths)

type HarnessSpec struct {
	Name       string         `json:"harness"`
	Params     map[string]int `json:"params,omitempty"`
	MaxSteps   int            `json:"max_steps,omitempty"`
	MaxPaths   int            `json:"max_paths,omitempty"`
	AllocLimit int            `json:"alloc_limit,omitempty"`
	SampleAll  bool           `json:"sample_all,omitempty"` // every path model is replayed natively (translator validation)
}

type HarnessRun struct {
	HarnessSpec
	fn    *ssa.Function
	Fixed map[string]uint64 // concrete mode: values for named inputs
	Trace bool

	mu            sync.Mutex
	Paths         map[string]int // status -> count
	NPaths        int
	Uncertain     int
	Asserts       map[string]*AssertCount
	Reached       map[string]int
	TagsSeen      map[string]int
	Cands         map[string][]*Candidate // class -> examples (bounded)
	CandCount     map[string]int
	Samples       []*Candidate
	UnsuppSamples []*Candidate
	Unsupp        map[string]int
	GlobalSt      map[string]int
	Transitions   int64
	Steps         int64
	Truncated     bool
	Wall          time.Duration
	sampleEvery   int
}

func (r *HarnessRun) allocLimit() int {
	if r.AllocLimit > 0 {
		return r.AllocLimit
	}
	return 1 << 16
}

const maxCandPerClass = 6

func (r *HarnessRun) absorb(p *PathResult, seed int64) {
	r.mu.Lock()
	defer r.mu.Unlock()
	r.NPaths++
	r.Paths[p.Status]++
	r.Uncertain += p.Uncertain
	r.Transitions += int64(p.NDecisions)
	r.Steps += int64(p.Steps)
	for id, a := range p.Asserts {
		t := r.Asserts[id]
		if t == nil {
			t = &AssertCount{}
			r.Asserts[id] = t
		}
		t.Reached += a.Reached
		t.Trivial += a.Trivial
		t.Proved += a.Proved
		t.Violated += a.Violated
		t.Inconclusive += a.Inconclusive
	}
	for _, id := range p.Reached {
		r.Reached[id]++
	}
	for _, t := range p.Tags {
		r.TagsSeen[t]++
	}
	for w := range p.GlobalStores {
		r.GlobalSt[w]++
	}
	if p.Status == "unsupported" {
		r.Unsupp[p.Msg]++
	}
	for _, c := range p.Candidates {
		k := c.classKey()
		r.CandCount[k]++
		if len(r.Cands[k]) < maxCandPerClass && c.Values != nil {
			r.Cands[k] = append(r.Cands[k], c)
		}
	}
	if p.Unsupp != nil && len(r.UnsuppSamples) < 24 {
		r.UnsuppSamples = append(r.UnsuppSamples, p.Unsupp)
	}
	if p.Sample != nil {
		// reservoir of samples: keep the first few and then every k-th path
		if r.SampleAll || len(r.Samples) < 8 || (r.NPaths%r.sampleEvery == int(seed%int64(r.sampleEvery))) {
			if len(r.Samples) < 64 || (r.SampleAll && len(r.Samples) < 4000) {
				r.Samples = append(r.Samples, p.Sample)
			}
		}
	}
}

// ---------------------------------------------------------------- exploration

type Program struct {
	prog  *ssa.Program
	hpkgs []*ssa.Package
	init  []*ssa.Function
}

func (pg *Program) harness(name string) *ssa.Function {
	for _, p := range pg.hpkgs {
		if f := p.Func(name); f != nil {
			return f
		}
	}
	return nil
}

func newEngine(pg *Program, timeoutMS int) *Engine {
	e := &Engine{prog: pg.prog, sizes: types.SizesFor("gc", "amd64"), globals: map[*ssa.Global]*Cell{}, fns: map[*ssa.Function]*fnInfo{},
		tf: NewTermFactory(), z: NewSolver(timeoutMS), known: map[*Term]bool{}, consts: map[*ssa.Const]Val{}, syncSide: map[*Cell]*Cell{}, funcsSeen: map[string]bool{}, stubsSeen: map[string]bool{}, varSeen: map[string]int{}}
	// package initialisers, concretely, best effort
	e.inInit = true
	e.maxSteps = 50_000_000
	e.run = &HarnessRun{}
	e.path = &PathResult{}
	for _, ini := range pg.init {
		func() {
			defer func() {
				if r := recover(); r != nil {
					if _, ok := r.(pathEnd); !ok {
						panic(r)
					}
				}
			}()
			e.call(ini, nil, nil)
		}()
	}
	e.inInit = false
	e.funcsSeen = map[string]bool{}
	e.stubsSeen = map[string]bool{}
	e.epoch = 1
	return e
}

// runPath executes the harness once along the given decision prefix.
func (e *Engine) runPath(run *HarnessRun, item workItem) *PathResult {
	e.run = run
	e.epoch++
	if e.epoch == 0 {
		e.epoch = 1
	}
	e.tf.Reset()
	e.z.Reset()
	e.pc = e.pc[:0]
	e.prefix = item.prefix
	e.pos = 0
	e.decisions = e.decisions[:0]
	e.pending = e.pending[:0]
	e.model = item.model
	e.vars = e.vars[:0]
	e.varSeen = map[string]int{}
	e.known = map[*Term]bool{}
	e.steps = 0
	e.maxSteps = run.MaxSteps
	e.stack = e.stack[:0]
	e.panics = e.panics[:0]
	e.pools, e.wraps = nil, nil
	e.sp = 0
	e.cellSeq, e.goPhase, e.goBarrier = 0, 0, 0
	for c := range e.syncSide {
		if c.epoch != 0 {
			delete(e.syncSide, c) // side state of path-local objects dies with the path
		}
	}
	p := &PathResult{Status: "ok"}
	e.path = p

	hcell := e.newCell(run.fn.Signature.Params().At(0).Type().(*types.Pointer).Elem())
	func() {
		defer func() {
			if r := recover(); r != nil {
				pe, ok := r.(pathEnd)
				if !ok {
					// engine bug: report as unsupported with the message, keep going
					p.Status, p.Msg = "unsupported", fmt.Sprintf("engine panic: %v @ %s", r, e.curFuncName())
					return
				}
				p.Status, p.Msg = pe.kind, pe.msg
				for i := len(e.stack) - 1; i >= 0 && len(p.PanicStack) < 6; i-- {
					p.PanicStack = append(p.PanicStack, e.stack[i].String())
				}
			}
		}()
		e.call(run.fn, []Val{Ptr{c: hcell}}, nil)
	}()
	e.undoJournal()
	p.Steps = e.steps
	p.NDecisions = len(e.decisions)
	e.totalSteps += int64(e.steps)

	switch p.Status {
	case "panic":
		sig := panicSignature(p.Msg, p.PanicStack)
		kind := "panic"
		if strings.HasPrefix(p.Msg, "alloc:") {
			kind = "alloc"
		}
		p.addViolation(e, kind, sig, e.ensureModel(), p.Msg)
	case "budget":
		p.addViolation(e, "hang", "budget:"+topLibFrame(p.PanicStack), e.ensureModel(), p.Msg)
	}
	// paths whose observations depend on uninterpreted results (strconv.ParseFloat of
	// a symbolic text) cannot be predicted by the engine: not used as validation traces
	if p.Status == "unsupported" {
		// the engine could not follow this path: its inputs are at least run natively
		// (concrete fallback for this path only; counted separately in the evidence)
		if m := e.ensureModel(); m != nil {
			p.Unsupp = &Candidate{Harness: run.Name, Params: run.Params, Kind: "unsupported-sample", ID: p.Msg, Tags: p.Tags, Values: p.concreteValues(e, m)}
		}
	}
	// (a path stopped by a concretely false assertion is reported as a candidate; its
	// inputs fail natively by construction and are no validation trace)
	if (p.Status == "ok" || (p.Status == "stop" && len(p.Candidates) == 0)) && len(p.pfMemo) == 0 && !p.MapOrder {
		if m := e.ensureModel(); m != nil {
			p.Sample = &Candidate{Harness: run.Name, Params: run.Params, Kind: "sample", Tags: p.Tags, Values: p.concreteValues(e, m), Observed: p.predicted(e, m)}
		}
	}
	return p
}

func topLibFrame(stack []string) string {
	for _, f := range stack {
		if !strings.Contains(f, "verif/harness") {
			return f
		}
	}
	if len(stack) > 0 {
		return stack[0]
	}
	return "?"
}

// panicSignature: kind of panic + innermost non-harness function (no line numbers,
// no concrete values), so that a known finding is matched by where and how it fails.
func panicSignature(msg string, stack []string) string {
	kind := msg
	switch {
	case strings.Contains(msg, "out of range"):
		kind = "bounds"
	case strings.Contains(msg, "nil pointer") || strings.Contains(msg, "nil map") || strings.Contains(msg, "nil interface"):
		kind = "nil"
	case strings.HasPrefix(msg, "explicit panic"):
		kind = "explicit"
	case strings.HasPrefix(msg, "alloc:"):
		kind = "alloc"
	case strings.Contains(msg, "makeslice"):
		kind = "makeslice"
	case strings.Contains(msg, "divide by zero"):
		kind = "div0"
	case strings.Contains(msg, "interface conversion"):
		kind = "ifaceconv"
	case strings.Contains(msg, "invalid reinterpretation"), strings.Contains(msg, "invalid pointer"):
		kind = "unsafe"
	case strings.Contains(msg, "read-only"):
		kind = "rostore"
	default:
		if i := strings.IndexAny(kind, ":["); i > 0 {
			kind = kind[:i]
		}
	}
	return kind + "@" + topLibFrame(stack)
}

// memoryHigh: the process uses more than 24 GiB (resident): exploration of the current
// harness stops (truncated) instead of taking the machine down.
func memoryHigh() bool {
	b, err := os.ReadFile("/proc/self/statm")
	if err != nil {
		return false
	}
	f := strings.Fields(string(b))
	if len(f) < 2 {
		return false
	}
	pages, _ := strconv.ParseInt(f[1], 10, 64)
	return pages*int64(os.Getpagesize()) > 24<<30
}

// explore runs the harness over all paths with nWorkers engines.
func explore(pg *Program, run *HarnessRun, engines []*Engine, seed int64, deadline time.Time) {
	t0 := time.Now()
	run.Paths = map[string]int{}
	run.Asserts = map[string]*AssertCount{}
	run.Reached = map[string]int{}
	run.TagsSeen = map[string]int{}
	run.Cands = map[string][]*Candidate{}
	run.CandCount = map[string]int{}
	run.Unsupp = map[string]int{}
	run.GlobalSt = map[string]int{}
	if run.sampleEvery == 0 {
		run.sampleEvery = 97
	}
	if run.MaxSteps == 0 {
		run.MaxSteps = 200000
	}
	var mu sync.Mutex
	cond := sync.NewCond(&mu)
	work := []workItem{{}}
	active := 0
	done := false
	var wg sync.WaitGroup
	for _, e := range engines {
		wg.Add(1)
		e.deadline = deadline
		go func(e *Engine) {
			defer wg.Done()
			for {
				mu.Lock()
				for len(work) == 0 && active > 0 && !done {
					cond.Wait()
				}
				if done || (len(work) == 0 && active == 0) {
					done = true
					cond.Broadcast()
					mu.Unlock()
					return
				}
				item := work[len(work)-1]
				work = work[:len(work)-1]
				active++
				mu.Unlock()

				p := e.runPath(run, item)
				run.absorb(p, seed)

				mu.Lock()
				work = append(work, e.pending...)
				active--
				if p.Status == "deadline" {
					run.Truncated = true
				}
				if (run.MaxPaths > 0 && run.NPaths >= run.MaxPaths) || time.Now().After(deadline) || (run.NPaths%512 == 0 && memoryHigh()) {
					if len(work) > 0 || active > 0 {
						run.Truncated = true
					}
					done = true
				}
				cond.Broadcast()
				mu.Unlock()
			}
		}(e)
	}
	wg.Wait()
	run.Wall = time.Since(t0)
}
