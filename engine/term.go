package main

// Terms: hash-consed expressions over Bool (W==0) and bit-vectors (W in 1..64).
// Floats are carried as their IEEE bit pattern; the OF* operators interpret the
// pattern with IEEE semantics.

import (
	"fmt"
	"math"
	"math/bits"
	"strconv"
)

type Op uint8

const (
	OConst Op = iota
	OVar
	OAdd
	OSub
	OMul
	OUDiv
	OSDiv
	OURem
	OSRem
	OAnd
	OOr
	OXor
	ONot // bitwise not on bv
	ONeg
	OShl
	OLShr
	OAShr
	OEq
	OUlt
	OUle
	OSlt
	OSle
	OBNot // boolean
	OBAnd
	OBOr
	OIte
	OZExt
	OSExt
	OExtract // low W bits
	// floating point on bit patterns
	OFEq   // IEEE ==, operands W=32/64, result Bool
	OFLt   // IEEE <
	OFLe   // IEEE <=
	OFCvt  // float W(arg) -> float W, round to nearest even
	OFToSI // float -> signed int of width W (truncate); out-of-range unspecified
	OFToUI // float -> unsigned int of width W
	OSIToF // signed int (arg width) -> float W, RNE
	OUIToF // unsigned int -> float W, RNE
	OFNeg  // float negate (flip sign bit) — encoded as xor
	OFAdd  // IEEE arithmetic on bit patterns, round to nearest even
	OFSub
	OFMul
	OFDiv
	OFRnd // round to integral; C: 0 toward zero, 1 down, 2 up, 3 nearest-away, 4 nearest-even
	OFSqrt
	opCount
)

var opNames = [...]string{"const", "var", "add", "sub", "mul", "udiv", "sdiv", "urem", "srem", "and", "or", "xor", "not", "neg", "shl", "lshr", "ashr",
	"eq", "ult", "ule", "slt", "sle", "bnot", "band", "bor", "ite", "zext", "sext", "extract", "feq", "flt", "fle", "fcvt", "ftosi", "ftoui", "sitof", "uitof", "fneg", "fadd", "fsub", "fmul", "fdiv", "frnd", "fsqrt"}

type iv struct{ lo, hi uint64 }

// Term: W==0 means Bool.
type Term struct {
	Op   Op
	W    uint8
	hard bool  // contains div/rem by other than a power of two, symbolic*symbolic, or a deep chain of constant multiplications
	md   uint8 // depth of nested multiplications by constants (not powers of two)
	fp   bool  // contains floating point operators
	C    uint64
	Name string
	A    [3]*Term
	// caches
	rngOK   bool
	rng     iv
	evalGen uint32
	evalV   uint64
	zGen    uint32
	zAst    uintptr
	id      uint32
}

func mask(w int) uint64 {
	if w >= 64 {
		return ^uint64(0)
	}
	if w == 0 {
		return 1
	}
	return (uint64(1) << uint(w)) - 1
}

func sext(v uint64, w int) int64 {
	if w >= 64 || w == 0 {
		return int64(v)
	}
	s := uint(64 - w)
	return int64(v<<s) >> s
}

type termKey struct {
	op      Op
	w       uint8
	c       uint64
	name    string
	a, b, d *Term
}

// TermFactory interns terms. One per engine worker (not thread safe).
type TermFactory struct {
	tab    map[termKey]*Term
	nextID uint32
	tT, tF *Term
	Made   int
}

func NewTermFactory() *TermFactory {
	f := &TermFactory{tab: map[termKey]*Term{}}
	f.tT = &Term{Op: OConst, W: 0, C: 1}
	f.tF = &Term{Op: OConst, W: 0, C: 0}
	return f
}

func (f *TermFactory) Reset() {
	f.tab = make(map[termKey]*Term, 1024)
}

func (f *TermFactory) K(w int, v uint64) *Term {
	if w == 0 {
		return f.KB(v&1 == 1)
	}
	return &Term{Op: OConst, W: uint8(w), C: v & mask(w)}
}

func (f *TermFactory) KB(b bool) *Term {
	if b {
		return f.tT
	}
	return f.tF
}

func (f *TermFactory) Var(name string, w int) *Term {
	return f.mk(OVar, w, 0, name, nil, nil, nil)
}

func (f *TermFactory) mk(op Op, w int, c uint64, name string, a, b, d *Term) *Term {
	// constants are compared by value: canonicalise operands that are constants is not
	// possible by pointer, so constants take part in the key through a shadow intern.
	a, b, d = f.canon(a), f.canon(b), f.canon(d)
	k := termKey{op, uint8(w), c, name, a, b, d}
	if t, ok := f.tab[k]; ok {
		return t
	}
	f.nextID++
	f.Made++
	t := &Term{Op: op, W: uint8(w), C: c, Name: name, A: [3]*Term{a, b, d}, id: f.nextID}
	for _, x := range t.A {
		if x != nil {
			t.hard = t.hard || x.hard
			t.fp = t.fp || x.fp
			if x.md > t.md {
				t.md = x.md
			}
		}
	}
	switch op {
	case OMul:
		pow2 := (b != nil && b.IsConst() && bits.OnesCount64(b.C) <= 1) || (a != nil && a.IsConst() && bits.OnesCount64(a.C) <= 1)
		switch {
		case pow2:
		case a.IsConst() || b.IsConst():
			// multiplication by a constant bit-blasts into a few adders; only long
			// chains (decimal conversion of many digits) defeat bit-blasting
			t.md++
			if t.md > 2 {
				t.hard = true
			}
		default:
			t.hard = true
		}
	case OUDiv, OSDiv, OURem, OSRem:
		// division by a constant power of two is cheap for bit-blasting
		if !(b != nil && b.IsConst() && bits.OnesCount64(b.C) <= 1) {
			t.hard = true
		}
	case OFEq, OFLt, OFLe, OFCvt, OFToSI, OFToUI, OSIToF, OUIToF, OFAdd, OFSub, OFMul, OFDiv, OFRnd, OFSqrt:
		t.fp = true
	}
	f.tab[k] = t
	return t
}

// canon interns bit-vector constants so that structurally equal terms share one node.
func (f *TermFactory) canon(t *Term) *Term {
	if t == nil || t.Op != OConst || t.W == 0 {
		return t
	}
	k := termKey{op: OConst, w: t.W, c: t.C}
	if x, ok := f.tab[k]; ok {
		return x
	}
	f.tab[k] = t
	return t
}

func (t *Term) IsConst() bool { return t.Op == OConst }
func (t *Term) True() bool    { return t.Op == OConst && t.W == 0 && t.C == 1 }
func (t *Term) False() bool   { return t.Op == OConst && t.W == 0 && t.C == 0 }

func fbits(w int, v uint64) float64 {
	if w == 32 {
		return float64(math.Float32frombits(uint32(v)))
	}
	return math.Float64frombits(v)
}

func tobits(w int, f float64) uint64 {
	if w == 32 {
		return uint64(math.Float32bits(float32(f)))
	}
	return math.Float64bits(f)
}

// foldBin computes op on constants; ok=false when not foldable (division by zero etc.).
func foldBin(op Op, w int, x, y uint64) (r uint64, isBool bool, ok bool) {
	switch op {
	case OAdd:
		r = x + y
	case OSub:
		r = x - y
	case OMul:
		r = x * y
	case OAnd:
		r = x & y
	case OOr:
		r = x | y
	case OXor:
		r = x ^ y
	case OShl:
		if y >= uint64(w) {
			r = 0
		} else {
			r = x << y
		}
	case OLShr:
		if y >= uint64(w) {
			r = 0
		} else {
			r = x >> y
		}
	case OAShr:
		sx := sext(x, w)
		if y >= uint64(w) {
			y = uint64(w - 1)
		}
		r = uint64(sx >> y)
	case OUDiv:
		if y == 0 {
			return mask(w), false, true // SMT-LIB semantics; Go panics before (guarded by the interpreter)
		}
		r = x / y
	case OURem:
		if y == 0 {
			return x, false, true
		}
		r = x % y
	case OSDiv:
		sx, sy := sext(x, w), sext(y, w)
		if sy == 0 {
			if sx >= 0 {
				return mask(w), false, true
			}
			return 1, false, true
		}
		if sy == -1 {
			r = uint64(-sx)
		} else {
			r = uint64(sx / sy)
		}
	case OSRem:
		sx, sy := sext(x, w), sext(y, w)
		if sy == 0 {
			return x, false, true
		}
		if sy == -1 {
			r = 0
		} else {
			r = uint64(sx % sy)
		}
	case OEq:
		return b2u(x == y), true, true
	case OUlt:
		return b2u(x < y), true, true
	case OUle:
		return b2u(x <= y), true, true
	case OSlt:
		return b2u(sext(x, w) < sext(y, w)), true, true
	case OSle:
		return b2u(sext(x, w) <= sext(y, w)), true, true
	case OBAnd:
		return b2u(x == 1 && y == 1), true, true
	case OBOr:
		return b2u(x == 1 || y == 1), true, true
	case OFEq:
		return b2u(fbits(w, x) == fbits(w, y)), true, true
	case OFLt:
		return b2u(fbits(w, x) < fbits(w, y)), true, true
	case OFLe:
		return b2u(fbits(w, x) <= fbits(w, y)), true, true
	case OFAdd:
		return tobits(w, fbits(w, x)+fbits(w, y)), false, true
	case OFSub:
		return tobits(w, fbits(w, x)-fbits(w, y)), false, true
	case OFMul:
		return tobits(w, fbits(w, x)*fbits(w, y)), false, true
	case OFDiv:
		return tobits(w, fbits(w, x)/fbits(w, y)), false, true
	default:
		return 0, false, false
	}
	return r & mask(w), false, true
}

func b2u(b bool) uint64 {
	if b {
		return 1
	}
	return 0
}

func (f *TermFactory) Bin(op Op, a, b *Term) *Term {
	if a.W != b.W {
		panic(fmt.Sprintf("width mismatch %d %d op %s", a.W, b.W, opNames[op]))
	}
	w := int(a.W)
	rw := w
	switch op {
	case OEq, OUlt, OUle, OSlt, OSle, OFEq, OFLt, OFLe:
		rw = 0
	}
	if a.IsConst() && b.IsConst() {
		if r, isB, ok := foldBin(op, w, a.C, b.C); ok {
			if isB {
				return f.KB(r == 1)
			}
			return f.K(w, r)
		}
	}
	// x - (x udiv c)*c  ==>  x urem c   (bit-vector identity for c != 0)
	if op == OSub && b.Op == OMul && b.A[1].IsConst() && b.A[1].C != 0 && b.A[0].Op == OUDiv && b.A[0].A[0] == a && b.A[0].A[1].IsConst() && b.A[0].A[1].C == b.A[1].C {
		return f.mk(OURem, w, 0, "", a, b.A[1], nil)
	}
	switch op {
	case OBAnd:
		if a.True() {
			return b
		}
		if b.True() {
			return a
		}
		if a.False() || b.False() {
			return f.KB(false)
		}
		if a == b {
			return a
		}
	case OBOr:
		if a.False() {
			return b
		}
		if b.False() {
			return a
		}
		if a.True() || b.True() {
			return f.KB(true)
		}
		if a == b {
			return a
		}
	case OEq:
		if a == b {
			return f.KB(true)
		}
		if w == 0 { // boolean equality
			if a.IsConst() {
				a, b = b, a
			}
			if b.True() {
				return a
			}
			if b.False() {
				return f.Not(a)
			}
		}
		// eq(ite(c,k1,k2), k) with constants
		if b.IsConst() && a.Op == OIte && a.A[1].IsConst() && a.A[2].IsConst() {
			return f.eqIteConst(a, b)
		}
		if a.IsConst() && b.Op == OIte && b.A[1].IsConst() && b.A[2].IsConst() {
			return f.eqIteConst(b, a)
		}
		// eq(zext(x), k): compare at the narrow width
		if b.IsConst() && (a.Op == OZExt) {
			x := a.A[0]
			if b.C > mask(int(x.W)) {
				return f.KB(false)
			}
			return f.Bin(OEq, x, f.K(int(x.W), b.C))
		}
		if a.IsConst() && !b.IsConst() {
			a, b = b, a
		}
	case OAdd:
		if b.IsConst() && b.C == 0 {
			return a
		}
		if a.IsConst() && a.C == 0 {
			return b
		}
		if a.IsConst() && !b.IsConst() {
			a, b = b, a
		}
		// (x + c1) + c2
		if b.IsConst() && a.Op == OAdd && a.A[1].IsConst() {
			return f.Bin(OAdd, a.A[0], f.K(w, a.A[1].C+b.C))
		}
	case OSub:
		if b.IsConst() && b.C == 0 {
			return a
		}
		if a == b {
			return f.K(w, 0)
		}
		if b.IsConst() {
			return f.Bin(OAdd, a, f.K(w, -b.C))
		}
	case OMul:
		if b.IsConst() && b.C == 1 {
			return a
		}
		if a.IsConst() && a.C == 1 {
			return b
		}
		if (b.IsConst() && b.C == 0) || (a.IsConst() && a.C == 0) {
			return f.K(w, 0)
		}
		if a.IsConst() && !b.IsConst() {
			a, b = b, a
		}
	case OAnd:
		if b.IsConst() && b.C == mask(w) {
			return a
		}
		if a.IsConst() && a.C == mask(w) {
			return b
		}
		if (b.IsConst() && b.C == 0) || (a.IsConst() && a.C == 0) {
			return f.K(w, 0)
		}
		if a == b {
			return a
		}
		if a.IsConst() && !b.IsConst() {
			a, b = b, a
		}
		// and(zext(x), mask covering x) = zext(x)
		if b.IsConst() && a.Op == OZExt && b.C&mask(int(a.A[0].W)) == mask(int(a.A[0].W)) {
			return a
		}
	case OOr, OXor:
		if b.IsConst() && b.C == 0 {
			return a
		}
		if a.IsConst() && a.C == 0 {
			return b
		}
		if a.IsConst() && !b.IsConst() {
			a, b = b, a
		}
	case OShl, OLShr, OAShr:
		if b.IsConst() && b.C == 0 {
			return a
		}
		if a.IsConst() && a.C == 0 {
			return a
		}
	case OUlt:
		if a == b {
			return f.KB(false)
		}
		if b.IsConst() && b.C == 0 {
			return f.KB(false)
		}
	case OUle:
		if a == b {
			return f.KB(true)
		}
		if a.IsConst() && a.C == 0 {
			return f.KB(true)
		}
	case OSlt:
		if a == b {
			return f.KB(false)
		}
	case OSle:
		if a == b {
			return f.KB(true)
		}
	}
	return f.mk(op, rw, 0, "", a, b, nil)
}

func (f *TermFactory) eqIteConst(ite, k *Term) *Term {
	c, x, y := ite.A[0], ite.A[1], ite.A[2]
	ex, ey := x.C == k.C, y.C == k.C
	switch {
	case ex && ey:
		return f.KB(true)
	case ex:
		return c
	case ey:
		return f.Not(c)
	}
	return f.KB(false)
}

func (f *TermFactory) Not(a *Term) *Term {
	if a.W != 0 {
		panic("Not on bv")
	}
	if a.IsConst() {
		return f.KB(a.C == 0)
	}
	if a.Op == OBNot {
		return a.A[0]
	}
	return f.mk(OBNot, 0, 0, "", a, nil, nil)
}

func (f *TermFactory) And(a, b *Term) *Term { return f.Bin(OBAnd, a, b) }
func (f *TermFactory) Or(a, b *Term) *Term  { return f.Bin(OBOr, a, b) }
func (f *TermFactory) Eq(a, b *Term) *Term  { return f.Bin(OEq, a, b) }

func (f *TermFactory) BvNot(a *Term) *Term {
	if a.IsConst() {
		return f.K(int(a.W), ^a.C)
	}
	if a.Op == ONot {
		return a.A[0]
	}
	return f.mk(ONot, int(a.W), 0, "", a, nil, nil)
}

func (f *TermFactory) Neg(a *Term) *Term {
	if a.IsConst() {
		return f.K(int(a.W), -a.C)
	}
	return f.mk(ONeg, int(a.W), 0, "", a, nil, nil)
}

func (f *TermFactory) Ite(c, a, b *Term) *Term {
	if c.True() {
		return a
	}
	if c.False() {
		return b
	}
	if a == b {
		return a
	}
	if a.W != b.W {
		panic("ite width mismatch")
	}
	if a.IsConst() && b.IsConst() && a.C == b.C {
		return a
	}
	if a.W == 0 {
		if a.True() && b.False() {
			return c
		}
		if a.False() && b.True() {
			return f.Not(c)
		}
		if a.True() {
			return f.Or(c, b)
		}
		if a.False() {
			return f.And(f.Not(c), b)
		}
		if b.True() {
			return f.Or(f.Not(c), a)
		}
		if b.False() {
			return f.And(c, a)
		}
	}
	return f.mk(OIte, int(a.W), 0, "", c, a, b)
}

// Resize converts a to width w; signed selects sign extension when widening.
func (f *TermFactory) Resize(a *Term, w int, signed bool) *Term {
	aw := int(a.W)
	if aw == w {
		return a
	}
	if aw == 0 || w == 0 {
		panic("resize of bool")
	}
	if a.IsConst() {
		if w < aw {
			return f.K(w, a.C)
		}
		if signed {
			return f.K(w, uint64(sext(a.C, aw)))
		}
		return f.K(w, a.C)
	}
	if w < aw {
		// extract of an extension
		if a.Op == OZExt || a.Op == OSExt {
			x := a.A[0]
			if int(x.W) == w {
				return x
			}
			if int(x.W) > w {
				return f.Resize(x, w, false)
			}
			return f.Resize(x, w, a.Op == OSExt)
		}
		if a.Op == OExtract {
			return f.Resize(a.A[0], w, false)
		}
		return f.mk(OExtract, w, 0, "", a, nil, nil)
	}
	if signed {
		if a.Op == OZExt { // sign bit is zero
			return f.mk(OZExt, w, 0, "", a.A[0], nil, nil)
		}
		if a.Op == OSExt {
			return f.mk(OSExt, w, 0, "", a.A[0], nil, nil)
		}
		return f.mk(OSExt, w, 0, "", a, nil, nil)
	}
	if a.Op == OZExt {
		return f.mk(OZExt, w, 0, "", a.A[0], nil, nil)
	}
	return f.mk(OZExt, w, 0, "", a, nil, nil)
}

// roundF: math.Trunc/Floor/Ceil/Round/RoundToEven by mode.
func roundF(mode uint64, v float64) float64 {
	switch mode {
	case 0:
		return math.Trunc(v)
	case 1:
		return math.Floor(v)
	case 2:
		return math.Ceil(v)
	case 3:
		return math.Round(v)
	}
	return math.RoundToEven(v)
}

// FRnd rounds a float (bit pattern) to an integral value.
func (f *TermFactory) FRnd(a *Term, mode uint64) *Term {
	if a.IsConst() {
		return f.K(int(a.W), tobits(int(a.W), roundF(mode, fbits(int(a.W), a.C))))
	}
	return f.mk(OFRnd, int(a.W), mode, "", a, nil, nil)
}

func (f *TermFactory) FSqrt(a *Term) *Term {
	if a.IsConst() {
		return f.K(int(a.W), tobits(int(a.W), math.Sqrt(fbits(int(a.W), a.C))))
	}
	return f.mk(OFSqrt, int(a.W), 0, "", a, nil, nil)
}

// FP conversions
func (f *TermFactory) FCvt(a *Term, w int) *Term {
	if int(a.W) == w {
		return a
	}
	if a.IsConst() {
		return f.K(w, tobits(w, fbits(int(a.W), a.C)))
	}
	return f.mk(OFCvt, w, 0, "", a, nil, nil)
}

func (f *TermFactory) FToInt(a *Term, w int, signed bool) *Term {
	if a.IsConst() {
		v := fbits(int(a.W), a.C)
		if signed {
			if v == v && v >= -9.3e18 && v <= 9.2e18 {
				return f.K(w, uint64(int64(v)))
			}
		} else if v == v && v >= 0 && v <= 1.8e19 {
			return f.K(w, uint64(v))
		}
	}
	if signed {
		return f.mk(OFToSI, w, 0, "", a, nil, nil)
	}
	return f.mk(OFToUI, w, 0, "", a, nil, nil)
}

func (f *TermFactory) IntToF(a *Term, w int, signed bool) *Term {
	if a.IsConst() {
		if signed {
			return f.K(w, tobits(w, float64(sext(a.C, int(a.W)))))
		}
		return f.K(w, tobits(w, float64(a.C)))
	}
	if signed {
		return f.mk(OSIToF, w, 0, "", a, nil, nil)
	}
	return f.mk(OUIToF, w, 0, "", a, nil, nil)
}

func (t *Term) String() string {
	switch t.Op {
	case OConst:
		if t.W == 0 {
			return strconv.FormatBool(t.C == 1)
		}
		return fmt.Sprintf("%#x:%d", t.C, t.W)
	case OVar:
		return t.Name
	}
	s := fmt.Sprintf("(%s/%d", opNames[t.Op], t.W)
	for _, a := range t.A {
		if a != nil {
			s += " " + a.String()
		}
	}
	return s + ")"
}

// ---------------------------------------------------------------- evaluation under a model

type Model map[string]uint64

type Evaluator struct{ gen uint32 }

var evalGenCounter uint32

// Eval computes the value of t under m (missing variables are 0). Not thread safe
// across engines sharing terms (they do not).
func (ev *Evaluator) Eval(t *Term, m Model) uint64 {
	ev.gen++
	if ev.gen == 0 {
		ev.gen = 1
	}
	return ev.eval(t, m)
}

// EvalMore evaluates another term under the same model as the previous Eval (shares memo).
func (ev *Evaluator) EvalMore(t *Term, m Model) uint64 { return ev.eval(t, m) }

func (ev *Evaluator) eval(t *Term, m Model) uint64 {
	switch t.Op {
	case OConst:
		return t.C
	case OVar:
		return m[t.Name] & mask(int(t.W))
	}
	if t.evalGen == ev.gen {
		return t.evalV
	}
	var r uint64
	w := int(t.W)
	switch t.Op {
	case OBNot:
		r = 1 - ev.eval(t.A[0], m)
	case ONot:
		r = ^ev.eval(t.A[0], m) & mask(w)
	case ONeg:
		r = -ev.eval(t.A[0], m) & mask(w)
	case OIte:
		if ev.eval(t.A[0], m) == 1 {
			r = ev.eval(t.A[1], m)
		} else {
			r = ev.eval(t.A[2], m)
		}
	case OZExt:
		r = ev.eval(t.A[0], m)
	case OSExt:
		r = uint64(sext(ev.eval(t.A[0], m), int(t.A[0].W))) & mask(w)
	case OExtract:
		r = ev.eval(t.A[0], m) & mask(w)
	case OFCvt:
		r = tobits(w, fbits(int(t.A[0].W), ev.eval(t.A[0], m)))
	case OFToSI:
		v := fbits(int(t.A[0].W), ev.eval(t.A[0], m))
		r = uint64(int64(v)) & mask(w)
	case OFToUI:
		v := fbits(int(t.A[0].W), ev.eval(t.A[0], m))
		r = uint64(v) & mask(w)
	case OSIToF:
		r = tobits(w, float64(sext(ev.eval(t.A[0], m), int(t.A[0].W))))
	case OUIToF:
		r = tobits(w, float64(ev.eval(t.A[0], m)))
	case OFRnd:
		r = tobits(w, roundF(t.C, fbits(w, ev.eval(t.A[0], m))))
	case OFSqrt:
		r = tobits(w, math.Sqrt(fbits(w, ev.eval(t.A[0], m))))
	case OBAnd:
		if ev.eval(t.A[0], m) == 1 && ev.eval(t.A[1], m) == 1 {
			r = 1
		}
	case OBOr:
		if ev.eval(t.A[0], m) == 1 || ev.eval(t.A[1], m) == 1 {
			r = 1
		}
	default:
		x, y := ev.eval(t.A[0], m), ev.eval(t.A[1], m)
		v, _, ok := foldBin(t.Op, int(t.A[0].W), x, y)
		if !ok {
			panic("eval: op " + opNames[t.Op])
		}
		r = v
	}
	t.evalGen, t.evalV = ev.gen, r
	return r
}

// ---------------------------------------------------------------- unsigned intervals

func full(w int) iv { return iv{0, mask(w)} }

func rng(t *Term) iv {
	if t.W == 0 {
		if t.IsConst() {
			return iv{t.C, t.C}
		}
		return iv{0, 1}
	}
	if t.Op == OConst {
		return iv{t.C, t.C}
	}
	if t.rngOK {
		return t.rng
	}
	w := int(t.W)
	r := full(w)
	switch t.Op {
	case OZExt:
		r = rng(t.A[0])
	case OSExt:
		a := rng(t.A[0])
		if a.hi < uint64(1)<<(t.A[0].W-1) {
			r = a
		}
	case OExtract:
		a := rng(t.A[0])
		if a.hi <= mask(w) {
			r = a
		}
	case OAdd:
		a, b := rng(t.A[0]), rng(t.A[1])
		hi, c := bits.Add64(a.hi, b.hi, 0)
		if c == 0 && hi <= mask(w) {
			r = iv{a.lo + b.lo, hi}
		} else if t.A[1].IsConst() {
			// x + (-k) with x >= k : no wrap below
			k := (-t.A[1].C) & mask(w)
			if a.lo >= k {
				r = iv{a.lo - k, a.hi - k}
			}
		}
	case OSub:
		a, b := rng(t.A[0]), rng(t.A[1])
		if a.lo >= b.hi {
			r = iv{a.lo - b.hi, a.hi - b.lo}
		}
	case OMul:
		a, b := rng(t.A[0]), rng(t.A[1])
		h, l := bits.Mul64(a.hi, b.hi)
		if h == 0 && l <= mask(w) {
			r = iv{a.lo * b.lo, l}
		}
	case OUDiv:
		a, b := rng(t.A[0]), rng(t.A[1])
		if b.lo > 0 {
			r = iv{a.lo / b.hi, a.hi / b.lo}
		}
	case OURem:
		a, b := rng(t.A[0]), rng(t.A[1])
		if b.lo > 0 {
			hi := b.hi - 1
			if a.hi < hi {
				hi = a.hi
			}
			r = iv{0, hi}
		}
	case OAnd:
		a, b := rng(t.A[0]), rng(t.A[1])
		hi := a.hi
		if b.hi < hi {
			hi = b.hi
		}
		r = iv{0, hi}
	case OOr, OXor:
		a, b := rng(t.A[0]), rng(t.A[1])
		m := a.hi | b.hi
		if m != 0 {
			m = mask(bits.Len64(m))
		}
		r = iv{0, m}
		if t.Op == OOr {
			if a.lo > b.lo {
				r.lo = a.lo
			} else {
				r.lo = b.lo
			}
		}
	case OLShr:
		a, b := rng(t.A[0]), rng(t.A[1])
		if b.lo == b.hi && b.lo < 64 {
			r = iv{a.lo >> b.lo, a.hi >> b.lo}
		} else {
			r = iv{0, a.hi}
		}
	case OShl:
		a, b := rng(t.A[0]), rng(t.A[1])
		if b.lo == b.hi && b.lo < uint64(w) && bits.Len64(a.hi)+int(b.lo) <= w {
			r = iv{a.lo << b.lo, a.hi << b.lo}
		}
	case OIte:
		a, b := rng(t.A[1]), rng(t.A[2])
		r = a
		if b.lo < r.lo {
			r.lo = b.lo
		}
		if b.hi > r.hi {
			r.hi = b.hi
		}
	}
	t.rng, t.rngOK = r, true
	return r
}

// simp tries to decide a boolean term from ranges; returns t unchanged when it cannot.
func (f *TermFactory) simp(t *Term) *Term {
	if t.W != 0 || t.IsConst() {
		return t
	}
	switch t.Op {
	case OBNot:
		a := f.simp(t.A[0])
		if a.IsConst() {
			return f.KB(a.C == 0)
		}
	case OBAnd:
		a, b := f.simp(t.A[0]), f.simp(t.A[1])
		if a.False() || b.False() {
			return f.KB(false)
		}
		if a.True() && b.True() {
			return f.KB(true)
		}
		if a.True() {
			return b
		}
		if b.True() {
			return a
		}
	case OBOr:
		a, b := f.simp(t.A[0]), f.simp(t.A[1])
		if a.True() || b.True() {
			return f.KB(true)
		}
		if a.False() && b.False() {
			return f.KB(false)
		}
		if a.False() {
			return b
		}
		if b.False() {
			return a
		}
	case OEq:
		if t.A[0].W == 0 {
			return t
		}
		a, b := rng(t.A[0]), rng(t.A[1])
		if a.hi < b.lo || b.hi < a.lo {
			return f.KB(false)
		}
		if a.lo == a.hi && b.lo == b.hi && a.lo == b.lo {
			return f.KB(true)
		}
	case OUlt:
		a, b := rng(t.A[0]), rng(t.A[1])
		if a.hi < b.lo {
			return f.KB(true)
		}
		if a.lo >= b.hi {
			return f.KB(false)
		}
	case OUle:
		a, b := rng(t.A[0]), rng(t.A[1])
		if a.hi <= b.lo {
			return f.KB(true)
		}
		if a.lo > b.hi {
			return f.KB(false)
		}
	case OSlt, OSle:
		w := int(t.A[0].W)
		a, b := rng(t.A[0]), rng(t.A[1])
		sign := uint64(1) << uint(w-1)
		if a.hi < sign && b.hi < sign { // both non-negative: same as unsigned
			if t.Op == OSlt {
				if a.hi < b.lo {
					return f.KB(true)
				}
				if a.lo >= b.hi {
					return f.KB(false)
				}
			} else {
				if a.hi <= b.lo {
					return f.KB(true)
				}
				if a.lo > b.hi {
					return f.KB(false)
				}
			}
		}
	}
	return t
}
