package main

import "golang.org/x/tools/go/ssa"

// tryIfConvert: local if-conversion of small side-effect-free regions (see ifconv2.go
// once enabled). Returns the join block with its phis already evaluated, or nil.
func (e *Engine) tryIfConvert(fr *frame, b *ssa.BasicBlock, c *Term) *ssa.BasicBlock {
	return nil
}
