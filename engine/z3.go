package main

/*
#cgo LDFLAGS: -lz3
#include <z3.h>
#include <stdlib.h>
static void quietErr(Z3_context c, Z3_error_code e) {}
static void installQuiet(Z3_context c) { Z3_set_error_handler(c, quietErr); }
*/
import "C"

import (
	"fmt"
	"os"
	"time"
	"unsafe"
)

type Res int

const (
	Unsat Res = iota
	Sat
	Unknown
)

func (r Res) String() string { return [...]string{"unsat", "sat", "unknown"}[r] }

// Solver wraps one Z3 context + incremental solver (in-process) and routes hard
// arithmetic to text back ends.
type Solver struct {
	ctx        C.Z3_context
	s          C.Z3_solver
	gen        uint32
	vars       map[string]C.Z3_ast
	asserted   []*Term
	hardPC     bool
	timeoutMS  int
	pathsOnCtx int

	// statistics
	NAssert              int
	TMk, TAssert         time.Duration
	QZ3, QText, QUnknown int
	TZ3, TText           time.Duration
	TextLog              []textQuery // escalated queries (for selfcheck)
	Z3Log                []textQuery // sample of in-process queries, rendered as SMT-LIB2 (for selfcheck)
	sampleEvery          int
	rne, rtz             C.Z3_ast
}

var solverGen uint32

func NewSolver(timeoutMS int) *Solver {
	z := &Solver{timeoutMS: timeoutMS}
	z.newCtx()
	return z
}

func (z *Solver) newCtx() {
	if z.ctx != nil {
		C.Z3_solver_dec_ref(z.ctx, z.s)
		C.Z3_del_context(z.ctx)
	}
	cfg := C.Z3_mk_config()
	tk, tv := C.CString("timeout"), C.CString(fmt.Sprint(z.timeoutMS))
	C.Z3_set_param_value(cfg, tk, tv)
	C.free(unsafe.Pointer(tk))
	C.free(unsafe.Pointer(tv))
	z.ctx = C.Z3_mk_context(cfg)
	C.Z3_del_config(cfg)
	C.installQuiet(z.ctx)
	z.s = C.Z3_mk_simple_solver(z.ctx)
	C.Z3_solver_inc_ref(z.ctx, z.s)
	C.Z3_solver_push(z.ctx, z.s)
	z.gen++
	if z.gen == 0 {
		z.gen = 1
	}
	z.vars = map[string]C.Z3_ast{}
	z.rne = C.Z3_mk_fpa_rne(z.ctx)
	z.rtz = C.Z3_mk_fpa_rtz(z.ctx)
	z.pathsOnCtx = 0
}

// Reset starts a new path. The Z3 context is recycled periodically because a
// non-reference-counted context keeps every AST alive.
func (z *Solver) Reset() {
	z.pathsOnCtx++
	if z.pathsOnCtx > 400 {
		z.newCtx()
	} else {
		// one scope per path: pop it and open a new one (much cheaper than
		// Z3_solver_reset, which rebuilds the SMT core on the next assert)
		C.Z3_solver_pop(z.ctx, z.s, 1)
		C.Z3_solver_push(z.ctx, z.s)
	}
	z.asserted = z.asserted[:0]
	z.hardPC = false
}

func (z *Solver) sort(w int) C.Z3_sort {
	if w == 0 {
		return C.Z3_mk_bool_sort(z.ctx)
	}
	return C.Z3_mk_bv_sort(z.ctx, C.uint(w))
}

func (z *Solver) fsort(w int) C.Z3_sort {
	if w == 32 {
		return C.Z3_mk_fpa_sort_32(z.ctx)
	}
	return C.Z3_mk_fpa_sort_64(z.ctx)
}

func (z *Solver) toFP(t *Term) C.Z3_ast {
	return C.Z3_mk_fpa_to_fp_bv(z.ctx, z.mk(t), z.fsort(int(t.W)))
}

func (z *Solver) mk(t *Term) C.Z3_ast {
	if t.zGen == z.gen && t.Op != OConst {
		return C.Z3_ast(unsafe.Pointer(t.zAst))
	}
	var r C.Z3_ast
	c := z.ctx
	w := int(t.W)
	switch t.Op {
	case OConst:
		if t.W == 0 {
			if t.C == 1 {
				return C.Z3_mk_true(c)
			}
			return C.Z3_mk_false(c)
		}
		return C.Z3_mk_unsigned_int64(c, C.uint64_t(t.C), z.sort(w))
	case OVar:
		key := fmt.Sprintf("%s/%d", t.Name, w)
		if v, ok := z.vars[key]; ok {
			r = v
		} else {
			cs := C.CString(key)
			r = C.Z3_mk_const(c, C.Z3_mk_string_symbol(c, cs), z.sort(w))
			C.free(unsafe.Pointer(cs))
			z.vars[key] = r
		}
	case OBNot:
		r = C.Z3_mk_not(c, z.mk(t.A[0]))
	case ONot:
		r = C.Z3_mk_bvnot(c, z.mk(t.A[0]))
	case ONeg:
		r = C.Z3_mk_bvneg(c, z.mk(t.A[0]))
	case OIte:
		r = C.Z3_mk_ite(c, z.mk(t.A[0]), z.mk(t.A[1]), z.mk(t.A[2]))
	case OZExt:
		r = C.Z3_mk_zero_ext(c, C.uint(w-int(t.A[0].W)), z.mk(t.A[0]))
	case OSExt:
		r = C.Z3_mk_sign_ext(c, C.uint(w-int(t.A[0].W)), z.mk(t.A[0]))
	case OExtract:
		r = C.Z3_mk_extract(c, C.uint(w-1), 0, z.mk(t.A[0]))
	case OBAnd, OBOr:
		args := [2]C.Z3_ast{z.mk(t.A[0]), z.mk(t.A[1])}
		if t.Op == OBAnd {
			r = C.Z3_mk_and(c, 2, &args[0])
		} else {
			r = C.Z3_mk_or(c, 2, &args[0])
		}
	case OFEq:
		r = C.Z3_mk_fpa_eq(c, z.toFP(t.A[0]), z.toFP(t.A[1]))
	case OFLt:
		r = C.Z3_mk_fpa_lt(c, z.toFP(t.A[0]), z.toFP(t.A[1]))
	case OFLe:
		r = C.Z3_mk_fpa_leq(c, z.toFP(t.A[0]), z.toFP(t.A[1]))
	case OFCvt:
		// NaN payloads: Go's conversion keeps a quiet NaN; Z3's to_ieee_bv of NaN is one
		// fixed pattern. Harnesses that compare NaN bit patterns after a width change
		// must normalise NaN themselves.
		r = C.Z3_mk_fpa_to_ieee_bv(c, C.Z3_mk_fpa_to_fp_float(c, z.rne, z.toFP(t.A[0]), z.fsort(w)))
	case OFToSI:
		r = C.Z3_mk_fpa_to_sbv(c, z.rtz, z.toFP(t.A[0]), C.uint(w))
	case OFToUI:
		r = C.Z3_mk_fpa_to_ubv(c, z.rtz, z.toFP(t.A[0]), C.uint(w))
	case OFAdd:
		r = C.Z3_mk_fpa_to_ieee_bv(c, C.Z3_mk_fpa_add(c, z.rne, z.toFP(t.A[0]), z.toFP(t.A[1])))
	case OFSub:
		r = C.Z3_mk_fpa_to_ieee_bv(c, C.Z3_mk_fpa_sub(c, z.rne, z.toFP(t.A[0]), z.toFP(t.A[1])))
	case OFMul:
		r = C.Z3_mk_fpa_to_ieee_bv(c, C.Z3_mk_fpa_mul(c, z.rne, z.toFP(t.A[0]), z.toFP(t.A[1])))
	case OFDiv:
		r = C.Z3_mk_fpa_to_ieee_bv(c, C.Z3_mk_fpa_div(c, z.rne, z.toFP(t.A[0]), z.toFP(t.A[1])))
	case OFSqrt:
		r = C.Z3_mk_fpa_to_ieee_bv(c, C.Z3_mk_fpa_sqrt(c, z.rne, z.toFP(t.A[0])))
	case OFRnd:
		var rm C.Z3_ast
		switch t.C {
		case 0:
			rm = z.rtz
		case 1:
			rm = C.Z3_mk_fpa_round_toward_negative(c)
		case 2:
			rm = C.Z3_mk_fpa_round_toward_positive(c)
		case 3:
			rm = C.Z3_mk_fpa_round_nearest_ties_to_away(c)
		default:
			rm = z.rne
		}
		r = C.Z3_mk_fpa_to_ieee_bv(c, C.Z3_mk_fpa_round_to_integral(c, rm, z.toFP(t.A[0])))
	case OSIToF:
		r = C.Z3_mk_fpa_to_ieee_bv(c, C.Z3_mk_fpa_to_fp_signed(c, z.rne, z.mk(t.A[0]), z.fsort(w)))
	case OUIToF:
		r = C.Z3_mk_fpa_to_ieee_bv(c, C.Z3_mk_fpa_to_fp_unsigned(c, z.rne, z.mk(t.A[0]), z.fsort(w)))
	default:
		a, b := z.mk(t.A[0]), z.mk(t.A[1])
		switch t.Op {
		case OAdd:
			r = C.Z3_mk_bvadd(c, a, b)
		case OSub:
			r = C.Z3_mk_bvsub(c, a, b)
		case OMul:
			r = C.Z3_mk_bvmul(c, a, b)
		case OUDiv:
			r = C.Z3_mk_bvudiv(c, a, b)
		case OSDiv:
			r = C.Z3_mk_bvsdiv(c, a, b)
		case OURem:
			r = C.Z3_mk_bvurem(c, a, b)
		case OSRem:
			r = C.Z3_mk_bvsrem(c, a, b)
		case OAnd:
			r = C.Z3_mk_bvand(c, a, b)
		case OOr:
			r = C.Z3_mk_bvor(c, a, b)
		case OXor:
			r = C.Z3_mk_bvxor(c, a, b)
		case OShl:
			r = C.Z3_mk_bvshl(c, a, b)
		case OLShr:
			r = C.Z3_mk_bvlshr(c, a, b)
		case OAShr:
			r = C.Z3_mk_bvashr(c, a, b)
		case OEq:
			r = C.Z3_mk_eq(c, a, b)
		case OUlt:
			r = C.Z3_mk_bvult(c, a, b)
		case OUle:
			r = C.Z3_mk_bvule(c, a, b)
		case OSlt:
			r = C.Z3_mk_bvslt(c, a, b)
		case OSle:
			r = C.Z3_mk_bvsle(c, a, b)
		default:
			panic(fmt.Sprintf("mk: op %d", t.Op))
		}
	}
	if r == nil {
		panic(fmt.Sprintf("z3: cannot build %s/%d over %v", opNames[t.Op], t.W, t.A))
	}
	t.zGen, t.zAst = z.gen, uintptr(unsafe.Pointer(r))
	return r
}

// Assert adds t permanently (until Reset).
func (z *Solver) Assert(t *Term) {
	z.asserted = append(z.asserted, t)
	if t.hard {
		z.hardPC = true
		return // hard constraints are only ever sent to the text back ends
	}
	t0 := time.Now()
	ast := z.mk(t)
	t1 := time.Now()
	C.Z3_solver_assert(z.ctx, z.s, ast)
	z.NAssert++
	z.TMk += t1.Sub(t0)
	z.TAssert += time.Since(t1)
	if debugSlow && time.Since(t1) > 5*time.Millisecond {
		fmt.Printf("SLOW ASSERT %v size=%d: %.300s\n", time.Since(t1), dagSize(t), t.String())
	}
}

// Check decides asserted ∧ extra. vars: variables whose values are wanted in the model.
func (z *Solver) Check(extra *Term, vars []*Term) (Res, Model) {
	if extra != nil && extra.False() {
		return Unsat, nil
	}
	if z.hardPC || (extra != nil && extra.hard) {
		conj := sliceFor(z.asserted, extra)
		t0 := time.Now()
		r, m := textCheck(conj, vars, z.timeoutMS, &z.TextLog)
		z.TText += time.Since(t0)
		z.QText++
		if r == Unknown {
			z.QUnknown++
		}
		return r, m
	}
	t0 := time.Now()
	z.QZ3++
	C.Z3_solver_push(z.ctx, z.s)
	if extra != nil {
		C.Z3_solver_assert(z.ctx, z.s, z.mk(extra))
	}
	r := C.Z3_solver_check(z.ctx, z.s)
	var res Res
	var m Model
	switch r {
	case C.Z3_L_TRUE:
		res = Sat
		m = z.model(vars)
	case C.Z3_L_FALSE:
		res = Unsat
	default:
		res = Unknown
	}
	C.Z3_solver_pop(z.ctx, z.s, 1)
	z.TZ3 += time.Since(t0)
	// cross-solver self check: every so often the query is also kept as text
	if res != Unknown && len(z.Z3Log) < 6 && z.QZ3%997 == 1 {
		conj := append(append([]*Term{}, z.asserted...), extra)
		if extra == nil {
			conj = conj[:len(conj)-1]
		}
		text, _ := smtText(conj, nil)
		z.Z3Log = append(z.Z3Log, textQuery{Text: text, Result: res, Solver: "z3-4.8.12-api"})
	}
	if res == Unknown {
		// escalate to the text back ends
		conj := sliceFor(z.asserted, extra)
		t1 := time.Now()
		res, m = textCheck(conj, vars, z.timeoutMS, &z.TextLog)
		z.TText += time.Since(t1)
		z.QText++
		if res == Unknown {
			z.QUnknown++
		}
	}
	return res, m
}

func (z *Solver) model(vars []*Term) Model {
	m := C.Z3_solver_get_model(z.ctx, z.s)
	if m == nil {
		return nil
	}
	C.Z3_model_inc_ref(z.ctx, m)
	defer C.Z3_model_dec_ref(z.ctx, m)
	out := make(Model, len(vars))
	for _, t := range vars {
		var res C.Z3_ast
		if !bool(C.Z3_model_eval(z.ctx, m, z.mk(t), true, &res)) {
			continue
		}
		if t.W == 0 {
			if C.Z3_get_bool_value(z.ctx, res) == C.Z3_L_TRUE {
				out[t.Name] = 1
			} else {
				out[t.Name] = 0
			}
			continue
		}
		var v C.uint64_t
		C.Z3_get_numeral_uint64(z.ctx, res, &v)
		out[t.Name] = uint64(v)
	}
	return out
}

// sliceFor returns the asserted constraints that (transitively) share variables with
// extra, plus extra. With extra == nil everything is returned.
func sliceFor(asserted []*Term, extra *Term) []*Term {
	if extra == nil {
		return append([]*Term{}, asserted...)
	}
	type cs struct {
		t    *Term
		vars map[string]bool
		used bool
	}
	all := make([]cs, len(asserted))
	for i, a := range asserted {
		all[i] = cs{t: a, vars: varsOf(a)}
	}
	want := varsOf(extra)
	out := []*Term{}
	changed := true
	for changed {
		changed = false
		for i := range all {
			if all[i].used {
				continue
			}
			hit := false
			for v := range all[i].vars {
				if want[v] {
					hit = true
					break
				}
			}
			if hit {
				all[i].used = true
				changed = true
				for v := range all[i].vars {
					want[v] = true
				}
			}
		}
	}
	for i := range all {
		if all[i].used {
			out = append(out, all[i].t)
		}
	}
	return append(out, extra)
}

func varsOf(t *Term) map[string]bool {
	out := map[string]bool{}
	seen := map[*Term]bool{}
	var walk func(*Term)
	walk = func(x *Term) {
		if x == nil || seen[x] {
			return
		}
		seen[x] = true
		if x.Op == OVar {
			out[x.Name] = true
			return
		}
		for _, a := range x.A {
			walk(a)
		}
	}
	walk(t)
	return out
}

var debugSlow = os.Getenv("GOSYM_SLOW") != ""

func dagSize(t *Term) int {
	seen := map[*Term]bool{}
	var walk func(*Term)
	walk = func(x *Term) {
		if x == nil || seen[x] {
			return
		}
		seen[x] = true
		for _, a := range x.A {
			walk(a)
		}
	}
	walk(t)
	return len(seen)
}
