package main

import (
	"fmt"
	"go/constant"
	"go/token"
	"go/types"
	"math"
	"os"
	"strings"
	"sync"
	"time"
	"unicode/utf8"

	"golang.org/x/tools/go/ssa"
)

// ---------------------------------------------------------------- engine

type fnInfo struct {
	idx      map[ssa.Value]int
	n        int
	name     string
	intr     intrinsicFn
	pdom     map[*ssa.BasicBlock]*ssa.BasicBlock // immediate post-dominators (lazy)
	pure     map[*ssa.BasicBlock]int8            // 0 unknown, 1 pure, 2 impure
	hasDefer bool
}

type intrinsicFn func(e *Engine, fn *ssa.Function, args []Val) Val

type journalEntry struct {
	c   *Cell
	old Val
}

type mapJournalEntry struct {
	m          *MapObj
	keys, vals []Val
}

type inputRec struct {
	Name string
	W    int
	T    *Term
}

type workItem struct {
	prefix []int32
	model  Model
}

type Engine struct {
	deadline time.Time       // wall-clock limit of the current harness (zero: none)
	panics   []*panicState   // Go panics currently unwinding through frames with deferred calls
	pools    map[*Cell][]Val // sync.Pool contents (per path)
	wraps    map[*Cell]Iface // error cell -> the error it wraps (fmt.Errorf with %w; per path)
	prog     *ssa.Program
	sizes    types.Sizes
	tf       *TermFactory
	z        *Solver
	ev       Evaluator
	globals  map[*ssa.Global]*Cell
	fns      map[*ssa.Function]*fnInfo
	run      *HarnessRun

	// path state
	epoch     uint32
	pc        []*Term
	prefix    []int32
	pos       int
	decisions []int32
	pending   []workItem
	model     Model
	vars      []*Term
	varSeen   map[string]int
	known     map[*Term]bool
	arena     []Val
	sp        int
	cellSeq   uint32
	syncSide  map[*Cell]*Cell
	// shared-state monitor (rt.H.Go): phase > 0 while a pipeline runs
	goPhase   int
	goBarrier uint32
	goWrites  map[*Cell]int
	goReads   map[*Cell]int
	consts    map[*ssa.Const]Val
	steps     int
	maxSteps  int
	inInit    bool
	stack     []*ssa.Function
	journal   []journalEntry
	mjournal  []mapJournalEntry
	path      *PathResult
	ifDepth   int

	// cumulative statistics
	funcsSeen  map[string]bool
	stubsSeen  map[string]bool
	nDecideIv  int // conditions decided by constant folding / intervals
	nDecideMod int // branch sides shown feasible by the cached model
	nIfConv    int
	totalSteps int64
}

func (e *Engine) unsupported(f string, a ...interface{}) {
	panic(pathEnd{kind: "unsupported", msg: fmt.Sprintf(f, a...)})
}

func (e *Engine) goPanic(f string, a ...interface{}) {
	panic(pathEnd{kind: "panic", msg: fmt.Sprintf(f, a...)})
}

func (e *Engine) K(w int, v uint64) *Term { return e.tf.K(w, v) }
func (e *Engine) KB(b bool) *Term         { return e.tf.KB(b) }

var sharedFnInfo sync.Map // *ssa.Function -> *fnInfo (immutable once stored)

func (e *Engine) info(fn *ssa.Function) *fnInfo {
	if fi, ok := e.fns[fn]; ok {
		return fi
	}
	if v, ok := sharedFnInfo.Load(fn); ok {
		e.fns[fn] = v.(*fnInfo)
		return v.(*fnInfo)
	}
	fi := &fnInfo{idx: map[ssa.Value]int{}, name: fn.String()}
	add := func(v ssa.Value) {
		fi.idx[v] = fi.n
		fi.n++
	}
	for _, p := range fn.Params {
		add(p)
	}
	for _, p := range fn.FreeVars {
		add(p)
	}
	for _, b := range fn.Blocks {
		for _, in := range b.Instrs {
			if v, ok := in.(ssa.Value); ok {
				add(v)
			}
			if _, ok := in.(*ssa.Defer); ok {
				fi.hasDefer = true
			}
		}
	}
	fi.intr = lookupIntrinsic(fi.name, fn)
	if v, loaded := sharedFnInfo.LoadOrStore(fn, fi); loaded {
		fi = v.(*fnInfo)
	}
	e.fns[fn] = fi
	return fi
}

// ---------------------------------------------------------------- memory

func (e *Engine) zero(t types.Type) Val {
	if isReflectValue(t) {
		return RV{}
	}
	switch u := t.Underlying().(type) {
	case *types.Basic:
		if u.Info()&types.IsString != 0 {
			return Slice{str: true}
		}
		if u.Kind() == types.UnsafePointer || u.Kind() == types.UntypedNil {
			return Ptr{}
		}
		w, _, ok := intWidth(t)
		if !ok {
			e.unsupported("zero of %v", t)
		}
		if w == 0 {
			return e.KB(false)
		}
		return e.K(w, 0)
	case *types.Pointer:
		return Ptr{}
	case *types.Slice:
		return Slice{}
	case *types.Interface:
		return Iface{}
	case *types.Struct:
		a := Agg{f: make([]Val, u.NumFields())}
		for i := range a.f {
			a.f[i] = e.zero(u.Field(i).Type())
		}
		return a
	case *types.Array:
		a := Agg{f: make([]Val, u.Len())}
		for i := range a.f {
			a.f[i] = e.zero(u.Elem())
		}
		return a
	case *types.Map:
		return (*MapObj)(nil)
	case *types.Signature, *types.Chan:
		return nil
	case *types.Tuple:
		tp := make(Tuple, u.Len())
		for i := range tp {
			tp[i] = e.zero(u.At(i).Type())
		}
		return tp
	}
	e.unsupported("zero of %v", t)
	return nil
}

func (e *Engine) newCell(t types.Type) *Cell {
	e.cellSeq++
	c := &Cell{typ: t, epoch: e.epoch, seq: e.cellSeq}
	if isReflectValue(t) {
		c.val = RV{}
		return c
	}
	switch u := t.Underlying().(type) {
	case *types.Struct:
		c.kids = make([]*Cell, u.NumFields())
		for i := range c.kids {
			c.kids[i] = e.newCell(u.Field(i).Type())
		}
		if len(c.kids) == 0 {
			c.val = Agg{}
		}
	case *types.Array:
		n := int(u.Len())
		c.kids = make([]*Cell, n)
		et := u.Elem()
		if !isAggType(et) {
			// fast path: scalar elements
			z := e.zero(et)
			block := make([]Cell, n)
			for i := range c.kids {
				block[i] = Cell{typ: et, val: z, epoch: e.epoch, up: c, upIdx: int32(i), seq: e.cellSeq}
				c.kids[i] = &block[i]
			}
		} else {
			for i := range c.kids {
				c.kids[i] = e.newCell(et)
				c.kids[i].up, c.kids[i].upIdx = c, int32(i)
			}
		}
		if len(c.kids) == 0 {
			c.val = Agg{}
		}
	default:
		c.val = e.zero(t)
	}
	return c
}

func (e *Engine) shared(c *Cell) bool {
	return c.epoch == 0 || c.epoch != e.epoch || c.seq <= e.goBarrier
}

func (e *Engine) load(c *Cell) Val {
	if e.goPhase > 0 && c.kids == nil && !c.ro && e.shared(c) {
		if w, ok := e.goWrites[c]; ok && w != e.goPhase {
			e.path.noteConflict("read of state written by another pipeline in " + e.curFuncName())
		}
		if _, ok := e.goReads[c]; !ok {
			e.goReads[c] = e.goPhase
		} else if e.goReads[c] != e.goPhase {
			e.goReads[c] = -1 // read by several pipelines
		}
	}
	if isAggType(c.typ) {
		a := Agg{f: make([]Val, len(c.kids))}
		for i, k := range c.kids {
			a.f[i] = e.load(k)
		}
		return a
	}
	return c.val
}

func (e *Engine) store(c *Cell, v Val) {
	if c.ro {
		e.goPanic("store into read-only (string) memory")
	}
	if isAggType(c.typ) {
		a, ok := v.(Agg)
		if !ok {
			e.unsupported("store non-agg %T into %v", v, c.typ)
		}
		if len(a.f) != len(c.kids) {
			e.unsupported("aggregate shape mismatch storing into %v", c.typ)
		}
		for i, k := range c.kids {
			e.store(k, a.f[i])
		}
		return
	}
	if e.goPhase > 0 && e.shared(c) {
		if w, ok := e.goWrites[c]; ok && w != e.goPhase {
			e.path.noteConflict("write to state written by another pipeline in " + e.curFuncName())
		}
		if r, ok := e.goReads[c]; ok && r != e.goPhase {
			e.path.noteConflict("write to state read by another pipeline in " + e.curFuncName())
		}
		e.goWrites[c] = e.goPhase
	}
	if c.epoch == 0 && !e.inInit {
		e.journal = append(e.journal, journalEntry{c, c.val})
		if e.path != nil {
			e.path.noteGlobalStore(e.curFuncName())
		}
	}
	c.val = v
}

func (e *Engine) curFuncName() string {
	if len(e.stack) == 0 {
		return "?"
	}
	return e.stack[len(e.stack)-1].String()
}

func (e *Engine) touchMap(m *MapObj) {
	if m.epoch == 0 && !e.inInit {
		e.mjournal = append(e.mjournal, mapJournalEntry{m, append([]Val{}, m.keys...), append([]Val{}, m.vals...)})
		if e.path != nil {
			e.path.noteGlobalStore(e.curFuncName() + " (map)")
		}
	}
}

func (e *Engine) undoJournal() {
	for i := len(e.journal) - 1; i >= 0; i-- {
		e.journal[i].c.val = e.journal[i].old
	}
	e.journal = e.journal[:0]
	for i := len(e.mjournal) - 1; i >= 0; i-- {
		j := e.mjournal[i]
		j.m.keys, j.m.vals = j.keys, j.vals
	}
	e.mjournal = e.mjournal[:0]
}

func (e *Engine) newArray(elem types.Type, n int) *Cell {
	return e.newCell(types.NewArray(elem, int64(n)))
}

func (e *Engine) stringVal(s string) Slice {
	if len(s) == 0 {
		return Slice{str: true}
	}
	arr := e.newArray(types.Typ[types.Uint8], len(s))
	for i := 0; i < len(s); i++ {
		arr.kids[i].val = e.K(8, uint64(s[i]))
		arr.kids[i].ro = true
	}
	return Slice{arr: arr, len: len(s), cap: len(s), str: true}
}

// bytesVal builds a []byte from terms.
func (e *Engine) bytesVal(ts []*Term) Slice {
	if len(ts) == 0 {
		return Slice{arr: e.newArray(types.Typ[types.Uint8], 0)}
	}
	arr := e.newArray(types.Typ[types.Uint8], len(ts))
	for i, t := range ts {
		arr.kids[i].val = t
	}
	return Slice{arr: arr, len: len(ts), cap: len(ts)}
}

// goString returns the concrete content of a string/byte-slice value.
func (e *Engine) goString(v Val) string {
	s, ok := e.tryGoString(v)
	if !ok {
		e.unsupported("concrete string required")
	}
	return s
}

func (e *Engine) tryGoString(v Val) (string, bool) {
	s := v.(Slice)
	b := make([]byte, s.len)
	for i := range b {
		t := e.load(s.arr.kids[s.off+i]).(*Term)
		if !t.IsConst() {
			return "", false
		}
		b[i] = byte(t.C)
	}
	return string(b), true
}

func (e *Engine) sliceTerms(s Slice) []*Term {
	out := make([]*Term, s.len)
	for i := range out {
		out[i] = e.load(s.arr.kids[s.off+i]).(*Term)
	}
	return out
}

// ---------------------------------------------------------------- decisions

func (e *Engine) assume(t *Term) {
	e.pc = append(e.pc, t)
	e.z.Assert(t)
	e.learn(t, true)
}

// noteBound tightens the cached unsigned interval of x when the path condition
// gains a comparison of x with a constant. Sound: the bound holds for the rest
// of the path, and terms are rebuilt for every path.
func (e *Engine) noteBound(t *Term) {
	neg := false
	if t.Op == OBNot {
		neg = true
		t = t.A[0]
	}
	if t.Op != OUlt && t.Op != OUle && t.Op != OEq {
		return
	}
	a, b := t.A[0], t.A[1]
	tighten := func(x *Term, lo, hi uint64) {
		if x.IsConst() || x.W == 0 {
			return
		}
		r := rng(x)
		if lo > r.lo {
			r.lo = lo
		}
		if hi < r.hi {
			r.hi = hi
		}
		if r.lo <= r.hi {
			x.rng, x.rngOK = r, true
		}
	}
	const maxU = ^uint64(0)
	switch {
	case t.Op == OEq && !neg && b.IsConst():
		tighten(a, b.C, b.C)
	case t.Op == OEq && !neg && a.IsConst():
		tighten(b, a.C, a.C)
	case t.Op == OUlt && b.IsConst(): // a < K   /  !(a < K) = a >= K
		if !neg {
			if b.C > 0 {
				tighten(a, 0, b.C-1)
			}
		} else {
			tighten(a, b.C, maxU)
		}
	case t.Op == OUlt && a.IsConst(): // K < b   /  b <= K
		if !neg {
			if a.C < maxU {
				tighten(b, a.C+1, maxU)
			}
		} else {
			tighten(b, 0, a.C)
		}
	case t.Op == OUle && b.IsConst(): // a <= K  /  a > K
		if !neg {
			tighten(a, 0, b.C)
		} else if b.C < maxU {
			tighten(a, b.C+1, maxU)
		}
	case t.Op == OUle && a.IsConst(): // K <= b  /  b < K
		if !neg {
			tighten(b, a.C, maxU)
		} else if a.C > 0 {
			tighten(b, 0, a.C-1)
		}
	}
}

// learn records that c has the given truth value on this path (for c and for its
// negation form, identically for forced and for replayed decisions).
func (e *Engine) learn(c *Term, v bool) {
	e.known[c] = v
	if c.Op == OBNot {
		e.known[c.A[0]] = !v
	}
	// identical for forced decisions (original path) and replayed ones, so that both
	// see the same intervals and therefore make the same sequence of decisions
	if v {
		e.noteBound(c)
	} else {
		e.noteBound(e.tf.Not(c))
	}
}

var debugModel = os.Getenv("GOSYM_DEBUG") != ""

func (e *Engine) modelSays(c *Term) int {
	if e.model == nil {
		return -1
	}
	if debugModel {
		e.ev.Eval(e.KB(true), e.model)
		for i, p := range e.pc {
			if e.ev.EvalMore(p, e.model) != 1 {
				panic(fmt.Sprintf("model does not satisfy pc[%d] = %v; model %v; decisions %v prefix %v", i, p, e.model, e.decisions, e.prefix))
			}
		}
	}
	return int(e.ev.Eval(c, e.model))
}

func (e *Engine) check(extra *Term) (Res, Model) {
	r, m := e.z.Check(extra, e.vars)
	if r == Sat && m != nil && (e.z.hardPC || (extra != nil && extra.hard)) {
		// text back ends answer on a slice of the path condition: complete the model
		// with the current one and validate it against the whole path condition.
		merged := Model{}
		for k, v := range e.model {
			merged[k] = v
		}
		for k, v := range m {
			merged[k] = v
		}
		ok := true
		e.ev.Eval(e.KB(true), merged)
		for _, p := range e.pc {
			if e.ev.EvalMore(p, merged) != 1 {
				ok = false
				break
			}
		}
		if ok && extra != nil && e.ev.EvalMore(extra, merged) != 1 {
			ok = false
		}
		if ok {
			return Sat, merged
		}
		return Sat, nil // satisfiable, but no validated full model
	}
	return r, m
}

func (e *Engine) pushAlt(d int32, m Model) {
	alt := make([]int32, len(e.decisions)+1)
	copy(alt, e.decisions)
	alt[len(e.decisions)] = d
	e.pending = append(e.pending, workItem{alt, m})
}

// decide forks on a symbolic boolean.
func (e *Engine) decide(c *Term) bool {
	c = e.tf.simp(c)
	if c.IsConst() {
		e.nDecideIv++
		return c.C == 1
	}
	if k, ok := e.known[c]; ok {
		// decided before on this path (the first occurrence is recorded as a decision,
		// so replays populate the same cache in the same order)
		return k
	}
	if e.pos < len(e.prefix) {
		d := e.prefix[e.pos]
		e.pos++
		e.decisions = append(e.decisions, d)
		if d == 1 {
			e.assume(c)
		} else {
			e.assume(e.tf.Not(c))
		}
		return d == 1
	}
	nc := e.tf.Not(c)
	switch e.modelSays(c) {
	case 1:
		e.nDecideMod++
		r, m := e.check(nc)
		e.pos++
		if r == Unsat {
			e.learn(c, true)
			e.decisions = append(e.decisions, 1)
			return true
		}
		if r == Unknown {
			e.path.Uncertain++
		}
		e.pushAlt(0, m)
		e.decisions = append(e.decisions, 1)
		e.assume(c)
		return true
	case 0:
		e.nDecideMod++
		r, m := e.check(c)
		e.pos++
		if r == Unsat {
			e.learn(c, false)
			e.decisions = append(e.decisions, 0)
			return false
		}
		if r == Unknown {
			e.path.Uncertain++
		}
		e.pushAlt(0, e.model)
		e.model = m
		e.decisions = append(e.decisions, 1)
		e.assume(c)
		return true
	}
	rt, mt := e.check(c)
	rf, mf := e.check(nc)
	if rt == Unknown || rf == Unknown {
		e.path.Uncertain++
	}
	e.pos++
	if rt == Unsat && rf != Unsat {
		e.learn(c, false)
		e.model = mf
		e.decisions = append(e.decisions, 0)
		return false
	}
	if rf == Unsat && rt != Unsat {
		e.learn(c, true)
		e.model = mt
		e.decisions = append(e.decisions, 1)
		return true
	}
	switch {
	case rt != Unsat && rf != Unsat:
		e.pushAlt(0, mf)
		e.model = mt
		e.decisions = append(e.decisions, 1)
		e.assume(c)
		return true
	case rt != Unsat:
		e.model = mt
		e.decisions = append(e.decisions, 1)
		e.assume(c)
		return true
	case rf != Unsat:
		e.model = mf
		e.decisions = append(e.decisions, 0)
		e.assume(nc)
		return false
	}
	panic(pathEnd{kind: "infeasible", msg: "both sides unsat"})
}

// chooseInt forks over lo..hi without a solver (harness-level choice).
func (e *Engine) chooseInt(lo, hi int) int {
	if hi < lo {
		e.unsupported("Choose with empty range")
	}
	if e.pos < len(e.prefix) {
		d := e.prefix[e.pos]
		e.pos++
		e.decisions = append(e.decisions, d)
		return int(d)
	}
	e.pos++
	for v := hi; v > lo; v-- {
		e.pushAlt(int32(v), e.model)
	}
	e.decisions = append(e.decisions, int32(lo))
	return lo
}

const maxConcretize = 300

// concretize returns a concrete value for t, forking over all feasible values.
func (e *Engine) concretize(t *Term, what string) int {
	if t.IsConst() {
		return int(sext(t.C, int(t.W)))
	}
	if r := rng(t); r.lo == r.hi {
		return int(sext(r.lo, int(t.W)))
	}
	w := int(t.W)
	if e.pos < len(e.prefix) {
		d := e.prefix[e.pos]
		e.pos++
		e.decisions = append(e.decisions, d)
		e.assume(e.tf.Eq(t, e.K(w, uint64(int64(d)))))
		return int(d)
	}
	e.pos++
	type cand struct {
		v int
		m Model
	}
	var vals []cand
	block := e.KB(true)
	if mv := e.model; mv != nil {
		v := e.ev.Eval(t, mv)
		vals = append(vals, cand{int(sext(v, w)), mv})
		block = e.tf.Not(e.tf.Eq(t, e.K(w, v)))
	}
	for len(vals) < maxConcretize {
		r, m := e.check(block)
		if r == Unsat {
			break
		}
		if r == Unknown || m == nil {
			e.path.Uncertain++
			e.unsupported("concretize %s: solver gave no model", what)
		}
		v := e.ev.Eval(t, m)
		vals = append(vals, cand{int(sext(v, w)), m})
		block = e.tf.And(block, e.tf.Not(e.tf.Eq(t, e.K(w, v))))
	}
	if len(vals) == 0 {
		panic(pathEnd{kind: "infeasible", msg: "concretize"})
	}
	if len(vals) >= maxConcretize {
		e.unsupported("concretize %s: more than %d values", what, maxConcretize)
	}
	if int64(int32(vals[0].v)) != int64(vals[0].v) {
		e.unsupported("concretize %s: value out of int32 range", what)
	}
	for _, c := range vals[1:] {
		if int64(int32(c.v)) != int64(c.v) {
			e.unsupported("concretize %s: value out of int32 range", what)
		}
		e.pushAlt(int32(c.v), c.m)
	}
	e.decisions = append(e.decisions, int32(vals[0].v))
	e.model = vals[0].m
	e.assume(e.tf.Eq(t, e.K(w, uint64(int64(vals[0].v)))))
	return vals[0].v
}

func (e *Engine) idxTerm(fr *frame, v ssa.Value) *Term {
	t, ok := e.get(fr, v).(*Term)
	if !ok {
		e.unsupported("index operand %T", e.get(fr, v))
	}
	_, signed, _ := intWidth(v.Type())
	return e.tf.Resize(t, 64, signed)
}

// inBounds forks a panic path if !(0 <= t < hi) (or <= hi with incl), as int64.
func (e *Engine) inBounds(t *Term, hi int, incl bool, what string) {
	var ok *Term
	if incl {
		ok = e.tf.And(e.tf.Bin(OSle, e.K(64, 0), t), e.tf.Bin(OSle, t, e.K(64, uint64(hi))))
	} else {
		ok = e.tf.And(e.tf.Bin(OSle, e.K(64, 0), t), e.tf.Bin(OSlt, t, e.K(64, uint64(hi))))
	}
	if !e.decide(ok) {
		v := int64(0)
		if e.model != nil {
			v = int64(e.ev.Eval(t, e.model))
		}
		e.goPanic("runtime error: %s out of range [%d] with bound %d", what, v, hi)
	}
}

func (e *Engine) boundedIndex(t *Term, hi int, incl bool, what string) int {
	e.inBounds(t, hi, incl, what)
	return e.concretize(t, what)
}

// ---------------------------------------------------------------- symbolic pointers

func (e *Engine) resolve(p Ptr, what string) *Cell {
	if p.c == nil {
		e.goPanic("runtime error: invalid memory address or nil pointer dereference (%s) in %s", what, e.curFuncName())
	}
	if p.raw || p.off != 0 {
		return e.ptrAdd(p.c, p.off)
	}
	if p.idx == nil {
		return p.c
	}
	i := e.concretize(p.idx, "symbolic pointer")
	return p.c.kids[i]
}

// viewAs resolves the "pointer to a struct is also a pointer to its first field"
// ambiguity: a cell reached by pointer arithmetic with offset 0 is narrowed to the
// leading field that has the shape of the static type it is accessed with.
func (e *Engine) viewAs(c *Cell, want types.Type) *Cell {
	for depth := 0; depth < 8; depth++ {
		if want == nil || c == nil || !isAggType(c.typ) || len(c.kids) == 0 {
			return c
		}
		if types.Identical(c.typ.Underlying(), want.Underlying()) {
			return c
		}
		if isAggType(want) {
			// another aggregate: only narrow if a leading field has that type
			k := c.kids[0]
			found := false
			for d := 0; d < 8 && k != nil; d++ {
				if types.Identical(k.typ.Underlying(), want.Underlying()) {
					found = true
					break
				}
				if len(k.kids) == 0 {
					break
				}
				k = k.kids[0]
			}
			if !found {
				return c
			}
		}
		c = c.kids[0]
	}
	return c
}

func (e *Engine) loadPtr(p Ptr) Val {
	if p.idx == nil || p.c == nil {
		return e.load(e.resolve(p, "load"))
	}
	// ite chain over the admissible range, when elements are scalars or aggregates
	// of scalars (e.g. utf8.acceptRanges)
	kids := p.c.kids[p.lo : p.lo+p.n]
	if len(kids) > 4096 {
		return e.load(e.resolve(p, "load"))
	}
	if v, ok := e.loadSym(kids, p.idx, p.lo); ok {
		return v
	}
	return e.load(e.resolve(p, "load"))
}

func (e *Engine) loadSym(kids []*Cell, idx *Term, base int) (Val, bool) {
	if len(kids) == 0 {
		return nil, false
	}
	if kids[0].kids != nil || isAggType(kids[0].typ) {
		nf := len(kids[0].kids)
		a := Agg{f: make([]Val, nf)}
		col := make([]*Cell, len(kids))
		for f := 0; f < nf; f++ {
			for i, k := range kids {
				if len(k.kids) != nf {
					return nil, false
				}
				col[i] = k.kids[f]
			}
			v, ok := e.loadSym(col, idx, base)
			if !ok {
				return nil, false
			}
			a.f[f] = v
		}
		return a, true
	}
	ts := make([]*Term, len(kids))
	for i, k := range kids {
		t, ok := k.val.(*Term)
		if !ok || k.kids != nil {
			return nil, false
		}
		ts[i] = t
	}
	return e.iteChain(ts, idx, base), true
}

func (e *Engine) unusedLoadTail(p Ptr, ts []*Term) *Term {
	return e.iteChain(ts, p.idx, p.lo)
}

func sameTerm(a, b *Term) bool {
	return a == b || (a.IsConst() && b.IsConst() && a.C == b.C && a.W == b.W)
}

// iteChain selects ts[idx-base]. Consecutive equal entries form one run; runs are
// chained with unsigned <= on the run end, so a 256-entry table with a dozen runs
// costs a dozen nodes.
func (e *Engine) iteChain(ts []*Term, idx *Term, base int) *Term {
	type run struct {
		end int
		v   *Term
	}
	var runs []run
	for i, t := range ts {
		if n := len(runs); n > 0 && sameTerm(runs[n-1].v, t) {
			runs[n-1].end = i
			continue
		}
		runs = append(runs, run{i, t})
	}
	res := runs[len(runs)-1].v
	for r := len(runs) - 2; r >= 0; r-- {
		res = e.tf.Ite(e.tf.Bin(OUle, idx, e.K(64, uint64(base+runs[r].end))), runs[r].v, res)
	}
	return res
}

func (e *Engine) storePtr(p Ptr, v Val) {
	if p.idx == nil || p.c == nil {
		e.store(e.resolve(p, "store"), v)
		return
	}
	nv, ok := v.(*Term)
	if ok && p.n <= 256 {
		kids := p.c.kids[p.lo : p.lo+p.n]
		all := true
		for _, k := range kids {
			if _, isT := k.val.(*Term); !isT || k.kids != nil {
				all = false
			}
		}
		if all {
			for i, k := range kids {
				old := k.val.(*Term)
				e.store(k, e.tf.Ite(e.tf.Eq(p.idx, e.K(64, uint64(p.lo+i))), nv, old))
			}
			return
		}
	}
	e.store(e.resolve(p, "store"), v)
}

// ---------------------------------------------------------------- frames

type deferred struct {
	call *ssa.CallCommon
	fn   Val   // evaluated function value (nil for static callee / invoke)
	recv Val   // receiver for invoke mode
	args []Val // evaluated arguments
}

type frame struct {
	fn     *ssa.Function
	fi     *fnInfo
	env    []Val
	prev   *ssa.BasicBlock
	defers []deferred
}

func (e *Engine) get(fr *frame, v ssa.Value) Val {
	switch x := v.(type) {
	case *ssa.Const:
		return e.constVal(x)
	case *ssa.Global:
		return Ptr{c: e.global(x)}
	case *ssa.Function:
		return x
	case *ssa.Builtin:
		return x
	}
	i, ok := fr.fi.idx[v]
	if !ok {
		e.unsupported("unbound value %s in %s", v.Name(), fr.fn)
	}
	r := fr.env[i]
	if r == nil {
		if _, isSig := v.Type().Underlying().(*types.Signature); isSig {
			return nil
		}
		if _, isTup := v.Type().(*types.Tuple); isTup {
			return nil
		}
		if e.inInit {
			e.unsupported("poisoned value %s in %s", v.Name(), fr.fn)
		}
		// nil func values / nil results of calls without value are legitimate nil
		return nil
	}
	return r
}

func (e *Engine) set(fr *frame, v ssa.Value, x Val) {
	fr.env[fr.fi.idx[v]] = x
}

func (e *Engine) global(g *ssa.Global) *Cell {
	c, ok := e.globals[g]
	if !ok {
		ep := e.epoch
		e.epoch = 0
		c = e.newCell(g.Type().(*types.Pointer).Elem())
		e.epoch = ep
		e.globals[g] = c
	}
	return c
}

func (e *Engine) constVal(c *ssa.Const) Val {
	if v, ok := e.consts[c]; ok {
		return v
	}
	v := e.constVal1(c)
	switch x := v.(type) {
	case *Term:
		e.consts[c] = v
	case Slice:
		if x.str {
			e.consts[c] = v // immutable
		}
	}
	return v
}

func (e *Engine) constVal1(c *ssa.Const) Val {
	t := c.Type()
	if c.Value == nil {
		return e.zero(t)
	}
	if b, ok := t.Underlying().(*types.Basic); ok {
		switch {
		case b.Info()&types.IsString != 0:
			return e.stringVal(constant.StringVal(c.Value))
		case b.Info()&types.IsBoolean != 0:
			return e.KB(constant.BoolVal(c.Value))
		case b.Info()&types.IsFloat != 0:
			f, _ := constant.Float64Val(c.Value)
			if b.Kind() == types.Float32 {
				return e.K(32, uint64(math.Float32bits(float32(f))))
			}
			return e.K(64, math.Float64bits(f))
		case b.Info()&types.IsInteger != 0:
			w, _, _ := intWidth(t)
			if i, ok := constant.Int64Val(constant.ToInt(c.Value)); ok {
				return e.K(w, uint64(i))
			}
			u, _ := constant.Uint64Val(constant.ToInt(c.Value))
			return e.K(w, u)
		}
	}
	e.unsupported("const %v of %v", c.Value, t)
	return nil
}

// ---------------------------------------------------------------- calls

func (e *Engine) call(fn *ssa.Function, args []Val, bind []Val) Val {
	fi := e.info(fn)
	if fi.intr != nil {
		e.stubsSeen[fi.name] = true
		return fi.intr(e, fn, args)
	}
	return e.callBody(fn, args, bind)
}

// callBody executes the function's own SSA (also used by intrinsics that only cover
// part of a function's domain).
func (e *Engine) callBody(fn *ssa.Function, args []Val, bind []Val) Val {
	fi := e.info(fn)
	if fn.Blocks == nil {
		e.unsupported("no body: %s", fi.name)
	}
	if !e.funcsSeen[fi.name] {
		e.funcsSeen[fi.name] = true
	}
	if len(e.stack) > 400 {
		panic(pathEnd{kind: "budget", msg: "call depth > 400 in " + fi.name})
	}
	if e.run.Trace {
		fmt.Printf("%*scall %s\n", len(e.stack)*2, "", fi.name)
	}
	e.stack = append(e.stack, fn)
	// frames live on an arena with stack discipline (no per-call heap allocation)
	sp := e.sp
	if sp+fi.n > len(e.arena) {
		e.arena = make([]Val, max(2*len(e.arena), sp+fi.n+4096))
		sp = 0
	}
	env := e.arena[sp : sp+fi.n : sp+fi.n]
	clear(env)
	e.sp = sp + fi.n
	savedArena := e.arena
	fr := &frame{fn: fn, fi: fi, env: env}
	copy(fr.env, args)
	copy(fr.env[len(fn.Params):], bind)
	var ret Val
	if fi.hasDefer {
		ret = e.runFrameDeferred(fr, e.sp)
	} else {
		ret = e.runFrame(fr)
	}
	e.stack = e.stack[:len(e.stack)-1]
	if len(savedArena) == len(e.arena) {
		e.sp = sp
	} else {
		e.sp = 0 // a callee switched to a bigger arena; start over at its base
	}
	return ret
}

// panicState: a Go panic that is unwinding through a frame with deferred calls.
type panicState struct {
	val       Val
	msg       string
	recovered bool
}

// runFrameDeferred runs a frame of a function that has deferred calls: a Go panic
// raised below it runs the pending deferred calls; if one of them calls recover the
// function returns normally through its Recover block, otherwise the panic goes on.
func (e *Engine) runFrameDeferred(fr *frame, frameEnd int) (ret Val) {
	depth := len(e.stack)
	arenaLen := len(e.arena)
	defer func() {
		r := recover()
		if r == nil {
			return
		}
		pe, ok := r.(pathEnd)
		if !ok || pe.kind != "panic" || len(fr.defers) == 0 {
			panic(r)
		}
		e.stack = e.stack[:depth]
		if len(e.arena) == arenaLen {
			e.sp = frameEnd
		}
		ps := &panicState{val: pe.val, msg: pe.msg}
		e.panics = append(e.panics, ps)
		for len(fr.defers) > 0 {
			d := fr.defers[len(fr.defers)-1]
			fr.defers = fr.defers[:len(fr.defers)-1]
			e.runDeferred(d)
		}
		e.panics = e.panics[:len(e.panics)-1]
		if !ps.recovered {
			panic(r)
		}
		if fr.fn.Recover != nil {
			ret = e.runFrameFrom(fr, fr.fn.Recover)
			return
		}
		// no named results: the zero values are returned
		res := fr.fn.Signature.Results()
		switch res.Len() {
		case 0:
			ret = nil
		case 1:
			ret = e.zero(res.At(0).Type())
		default:
			tp := make(Tuple, res.Len())
			for i := range tp {
				tp[i] = e.zero(res.At(i).Type())
			}
			ret = tp
		}
	}()
	return e.runFrame(fr)
}

func (e *Engine) runFrame(fr *frame) Val { return e.runFrameFrom(fr, fr.fn.Blocks[0]) }

func (e *Engine) runFrameFrom(fr *frame, b *ssa.BasicBlock) Val {
	fn := fr.fn
	skipPhi := false
	for {
		var next *ssa.BasicBlock
		nphi := 0
		for _, in := range b.Instrs {
			if _, ok := in.(*ssa.Phi); !ok {
				break
			}
			nphi++
		}
		if nphi > 0 && !skipPhi {
			// phis are evaluated simultaneously
			pi := -1
			for i, p := range b.Preds {
				if p == fr.prev {
					pi = i
					break
				}
			}
			if pi < 0 {
				e.unsupported("phi without pred in %s", fn)
			}
			tmp := make([]Val, nphi)
			for i := 0; i < nphi; i++ {
				tmp[i] = e.get(fr, b.Instrs[i].(*ssa.Phi).Edges[pi])
			}
			for i := 0; i < nphi; i++ {
				e.set(fr, b.Instrs[i].(*ssa.Phi), tmp[i])
			}
		}
		skipPhi = false
		for _, in := range b.Instrs[nphi:] {
			e.steps++
			if e.steps > e.maxSteps {
				panic(pathEnd{kind: "budget", msg: "instruction budget exhausted in " + fn.String()})
			}
			if e.steps&1023 == 0 && !e.deadline.IsZero() && time.Now().After(e.deadline) {
				// the harness ran out of wall-clock time in the middle of a path (a path
				// with very many solver decisions): not a finding, the run is truncated
				panic(pathEnd{kind: "deadline", msg: "wall-clock limit of the harness reached"})
			}
			switch x := in.(type) {
			case *ssa.Return:
				switch len(x.Results) {
				case 0:
					return nil
				case 1:
					return e.get(fr, x.Results[0])
				}
				tp := make(Tuple, len(x.Results))
				for i, r := range x.Results {
					tp[i] = e.get(fr, r)
				}
				return tp
			case *ssa.Jump:
				next = b.Succs[0]
			case *ssa.If:
				c, ok := e.get(fr, x.Cond).(*Term)
				if !ok {
					e.unsupported("non-term condition in %s", fn)
				}
				if c.IsConst() {
					if c.C == 1 {
						next = b.Succs[0]
					} else {
						next = b.Succs[1]
					}
					break
				}
				if j := e.tryIfConvert(fr, b, c); j != nil {
					next = j
					skipPhi = true
					break
				}
				if e.decide(c) {
					next = b.Succs[0]
				} else {
					next = b.Succs[1]
				}
			case *ssa.Panic:
				v := e.get(fr, x.X)
				panic(pathEnd{kind: "panic", msg: fmt.Sprintf("explicit panic in %s: %v", fn, e.describePanic(v)), val: v})
			default:
				if e.inInit {
					e.execInit(fr, in)
				} else {
					e.exec(fr, in)
				}
			}
			if next != nil {
				break
			}
		}
		fr.prev = b
		b = next
	}
}

func (e *Engine) execInit(fr *frame, in ssa.Instruction) {
	defer func() {
		if r := recover(); r != nil {
			if _, ok := r.(pathEnd); !ok {
				if os.Getenv("GOSYM_INITLOG") != "" {
					fmt.Printf("  init skip (engine panic) in %s: %v: %v\n", fr.fn, in, r)
				}
				return
			}
			if os.Getenv("GOSYM_INITLOG") != "" {
				fmt.Printf("  init skip in %s: %v: %v\n", fr.fn, in, r)
			}
		}
	}()
	e.exec(fr, in)
}

func (e *Engine) describePanic(v Val) string {
	if i, ok := v.(Iface); ok && i.typ != nil {
		if s, ok := i.v.(Slice); ok && s.str {
			if str, ok := e.tryGoString(s); ok {
				return fmt.Sprintf("%q", str)
			}
		}
		return i.typ.String()
	}
	return fmt.Sprintf("%T", v)
}

func (e *Engine) lookupMethod(t types.Type, m *types.Func) *ssa.Function {
	ms := e.prog.MethodSets.MethodSet(t)
	sel := ms.Lookup(m.Pkg(), m.Name())
	if sel == nil {
		// impossible in a well-typed program: the interface value was written through
		// an invalid reinterpretation of memory
		e.goPanic("invalid reinterpretation: method %s invoked on a value of type %v, which does not have it", m.Name(), t)
	}
	fn := e.prog.MethodValue(sel)
	if fn == nil {
		e.unsupported("abstract method %s on %v", m.Name(), t)
	}
	return fn
}

func (e *Engine) doCall(fr *frame, c *ssa.CallCommon) Val {
	args := make([]Val, 0, len(c.Args)+1)
	if c.IsInvoke() {
		recv, ok := e.get(fr, c.Value).(Iface)
		if !ok {
			e.unsupported("invoke on %T", e.get(fr, c.Value))
		}
		if recv.typ == nil {
			e.goPanic("runtime error: invalid memory address or nil pointer dereference (nil interface method call %s) in %s", c.Method.Name(), e.curFuncName())
		}
		if rt, ok := recv.v.(RT); ok {
			for _, a := range c.Args {
				args = append(args, e.get(fr, a))
			}
			return e.reflectTypeMethod(rt, c.Method.Name(), args)
		}
		fn := e.lookupMethod(recv.typ, c.Method)
		args = append(args, recv.v)
		for _, a := range c.Args {
			args = append(args, e.get(fr, a))
		}
		return e.call(fn, args, nil)
	}
	for _, a := range c.Args {
		args = append(args, e.get(fr, a))
	}
	switch f := c.Value.(type) {
	case *ssa.Builtin:
		return e.builtin(f.Name(), args, c)
	case *ssa.Function:
		return e.call(f, args, nil)
	}
	fv := e.get(fr, c.Value)
	e.checkFuncReinterpretation(fv, c)
	return e.callValue(fv, args)
}

func (e *Engine) runDeferred(d deferred) {
	c := d.call
	switch {
	case c.IsInvoke():
		recv, ok := d.recv.(Iface)
		if !ok || recv.typ == nil {
			e.goPanic("runtime error: invalid memory address or nil pointer dereference (deferred nil interface call)")
		}
		e.call(e.lookupMethod(recv.typ, c.Method), append([]Val{recv.v}, d.args...), nil)
	case d.fn != nil:
		e.callValue(d.fn, d.args)
	default:
		switch f := c.Value.(type) {
		case *ssa.Function:
			e.call(f, d.args, nil)
		case *ssa.Builtin:
			e.builtin(f.Name(), d.args, c)
		}
	}
}

// checkFuncReinterpretation: a function value called through a function type other
// than its own (possible only after an unsafe pointer conversion of the function
// value). Pointer parameters may differ (that is what such conversions are for), but
// an interface parameter declared with one interface type and called with a value of
// another interface type reads the caller's method table with the wrong layout.
func (e *Engine) checkFuncReinterpretation(f Val, c *ssa.CallCommon) {
	var fn *ssa.Function
	switch f := f.(type) {
	case *ssa.Function:
		fn = f
	case Closure:
		fn = f.fn
	}
	if fn == nil || fn.Signature == nil {
		return
	}
	cs, ok := c.Value.Type().Underlying().(*types.Signature)
	if !ok || cs.Params().Len() != fn.Signature.Params().Len() {
		return
	}
	for i := 0; i < cs.Params().Len(); i++ {
		a, b := cs.Params().At(i).Type(), fn.Signature.Params().At(i).Type()
		if _, isTP := a.(*types.TypeParam); isTP {
			continue
		}
		if _, isTP := b.(*types.TypeParam); isTP {
			continue
		}
		ai, aok := a.Underlying().(*types.Interface)
		bi, bok := b.Underlying().(*types.Interface)
		if aok != bok || aok && !types.Identical(ai, bi) {
			e.goPanic("invalid reinterpretation: function %s declared with parameter %d of type %v called through a function type whose parameter is %v", fn.Name(), i, b, a)
		}
	}
}

func (e *Engine) callValue(f Val, args []Val) Val {
	switch f := f.(type) {
	case *ssa.Function:
		return e.call(f, args, nil)
	case Closure:
		return e.call(f.fn, args, f.bind)
	case NativeFn:
		return f(e, args)
	case nil:
		e.goPanic("runtime error: invalid memory address or nil pointer dereference (call of nil func) in %s", e.curFuncName())
	}
	e.unsupported("dynamic call of %T", f)
	return nil
}

func (e *Engine) builtin(name string, a []Val, c *ssa.CallCommon) Val {
	switch name {
	case "len":
		switch s := a[0].(type) {
		case Slice:
			return e.K(64, uint64(s.len))
		case *MapObj:
			if s == nil {
				return e.K(64, 0)
			}
			return e.K(64, uint64(len(s.keys)))
		case Ptr: // pointer to array
			return e.K(64, uint64(c.Args[0].Type().Underlying().(*types.Pointer).Elem().Underlying().(*types.Array).Len()))
		case Agg:
			return e.K(64, uint64(len(s.f)))
		}
	case "cap":
		switch s := a[0].(type) {
		case Slice:
			return e.K(64, uint64(s.cap))
		case Agg:
			return e.K(64, uint64(len(s.f)))
		}
	case "append":
		dst := a[0].(Slice)
		src := a[1].(Slice)
		if src.len == 0 {
			return dst
		}
		elem := c.Args[0].Type().Underlying().(*types.Slice).Elem()
		need := dst.len + src.len
		if need <= dst.cap {
			tmp := make([]Val, src.len)
			for i := 0; i < src.len; i++ {
				tmp[i] = e.load(src.arr.kids[src.off+i])
			}
			for i := 0; i < src.len; i++ {
				e.store(dst.arr.kids[dst.off+dst.len+i], tmp[i])
			}
			dst.len = need
			return dst
		}
		ncap := growCap(dst.cap, need, int(e.sizes.Sizeof(elem)))
		arr := e.newArray(elem, ncap)
		for i := 0; i < dst.len; i++ {
			e.store(arr.kids[i], e.load(dst.arr.kids[dst.off+i]))
		}
		for i := 0; i < src.len; i++ {
			e.store(arr.kids[dst.len+i], e.load(src.arr.kids[src.off+i]))
		}
		return Slice{arr: arr, off: 0, len: need, cap: ncap}
	case "copy":
		dst := a[0].(Slice)
		src := a[1].(Slice)
		n := dst.len
		if src.len < n {
			n = src.len
		}
		tmp := make([]Val, n)
		for i := 0; i < n; i++ {
			tmp[i] = e.load(src.arr.kids[src.off+i])
		}
		for i := 0; i < n; i++ {
			e.store(dst.arr.kids[dst.off+i], tmp[i])
		}
		return e.K(64, uint64(n))
	case "delete":
		m := a[0].(*MapObj)
		if m == nil {
			return nil
		}
		for i := range m.keys {
			if e.decide(e.valEq(m.keys[i], a[1])) {
				e.touchMap(m)
				m.keys = append(append([]Val{}, m.keys[:i]...), m.keys[i+1:]...)
				m.vals = append(append([]Val{}, m.vals[:i]...), m.vals[i+1:]...)
				return nil
			}
		}
		return nil
	case "ssa:wrapnilchk":
		if p, ok := a[0].(Ptr); ok && p.c == nil {
			e.goPanic("runtime error: value method called using nil pointer")
		}
		return a[0]
	case "min", "max":
		if isFloat(c.Args[0].Type()) || isString(c.Args[0].Type()) {
			e.unsupported("builtin %s on %v", name, c.Args[0].Type())
		}
		_, signed, _ := intWidth(c.Args[0].Type())
		op := OUlt
		if signed {
			op = OSlt
		}
		x := a[0].(*Term)
		for _, yv := range a[1:] {
			y := yv.(*Term)
			lt := e.tf.Bin(op, x, y)
			if name == "min" {
				x = e.tf.Ite(lt, x, y)
			} else {
				x = e.tf.Ite(lt, y, x)
			}
		}
		return x
	case "recover":
		// effective in a deferred call while a panic unwinds through the deferring frame
		if n := len(e.panics); n > 0 && !e.panics[n-1].recovered {
			ps := e.panics[n-1]
			ps.recovered = true
			if ps.val != nil {
				return ps.val
			}
			return e.opaqueError(ps.msg) // runtime.Error: identity and text not modelled
		}
		return Iface{}
	case "clear":
		switch s := a[0].(type) {
		case *MapObj:
			if s != nil {
				s.keys, s.vals = nil, nil
			}
			return nil
		case Slice:
			et := c.Args[0].Type().Underlying().(*types.Slice).Elem()
			for i := 0; i < s.len; i++ {
				e.store(s.arr.kids[s.off+i], e.zero(et))
			}
			return nil
		}
	case "print", "println":
		return nil
	case "String", "Slice": // unsafe.String(ptr, len), unsafe.Slice(ptr, len)
		p := a[0].(Ptr)
		n := e.concretize(e.tf.Resize(a[1].(*Term), 64, true), "unsafe."+name+" length")
		if n == 0 {
			return Slice{str: name == "String"}
		}
		c := e.resolve(p, "unsafe."+name)
		if c.up == nil {
			if n == 1 {
				arr := &Cell{typ: types.NewArray(c.typ, 1), kids: []*Cell{c}, epoch: c.epoch}
				return Slice{arr: arr, len: 1, cap: 1, str: name == "String"}
			}
			e.goPanic("invalid pointer conversion: unsafe.%s over a non-array object", name)
		}
		off := int(c.upIdx)
		if n < 0 || off+n > len(c.up.kids) {
			e.goPanic("invalid pointer conversion: unsafe.%s(%d) exceeds the underlying array", name, n)
		}
		return Slice{arr: c.up, off: off, len: n, cap: n, str: name == "String"}
	case "StringData", "SliceData":
		s := a[0].(Slice)
		if s.arr == nil || s.off >= len(s.arr.kids) {
			return Ptr{}
		}
		return Ptr{c: s.arr.kids[s.off]}
	}
	e.unsupported("builtin %s(%T)", name, a[0])
	return nil
}

// growCap follows runtime.growslice (Go 1.20+): nextslicecap, then rounding of the
// byte size to a malloc size class.
func growCap(oldCap, newLen, elemSize int) int {
	newcap := oldCap
	doublecap := newcap + newcap
	if newLen > doublecap {
		newcap = newLen
	} else {
		const threshold = 256
		if oldCap < threshold {
			newcap = doublecap
		} else {
			for {
				newcap += (newcap + 3*threshold) >> 2
				if uint(newcap) >= uint(newLen) {
					break
				}
			}
		}
	}
	if elemSize <= 0 {
		return newcap
	}
	mem := roundupsize(newcap * elemSize)
	return mem / elemSize
}

var sizeClasses = []int{0, 8, 16, 24, 32, 48, 64, 80, 96, 112, 128, 144, 160, 176, 192, 208, 224, 240, 256, 288, 320, 352, 384, 416, 448, 480, 512, 576, 640, 704, 768, 896, 1024, 1152, 1280, 1408, 1536, 1792, 2048, 2304, 2688, 3072, 3200, 3456, 4096, 4864, 5376, 6144, 6528, 6784, 6912, 8192, 9472, 9728, 10240, 10880, 12288, 13568, 14336, 16384, 18432, 19072, 20480, 21760, 24576, 27264, 28672, 32768}

func roundupsize(n int) int {
	if n <= 32768 {
		for _, c := range sizeClasses {
			if c >= n {
				return c
			}
		}
	}
	const page = 8192
	return (n + page - 1) / page * page
}

// ---------------------------------------------------------------- instructions

func (e *Engine) exec(fr *frame, in ssa.Instruction) {
	switch x := in.(type) {
	case *ssa.DebugRef:
	case *ssa.Defer:
		// arguments are evaluated now, the call runs at RunDefers (normal returns only;
		// recover is not modelled: a Go panic ends the path as a finding anyway)
		d := deferred{call: &x.Call}
		if x.Call.IsInvoke() {
			d.recv = e.get(fr, x.Call.Value)
		} else if _, static := x.Call.Value.(*ssa.Function); !static {
			if _, builtin := x.Call.Value.(*ssa.Builtin); !builtin {
				d.fn = e.get(fr, x.Call.Value)
			}
		}
		for _, a := range x.Call.Args {
			d.args = append(d.args, e.get(fr, a))
		}
		fr.defers = append(fr.defers, d)
	case *ssa.RunDefers:
		for len(fr.defers) > 0 {
			d := fr.defers[len(fr.defers)-1]
			fr.defers = fr.defers[:len(fr.defers)-1]
			e.runDeferred(d)
		}
	case *ssa.Alloc:
		e.set(fr, x, Ptr{c: e.newCell(x.Type().(*types.Pointer).Elem())})
	case *ssa.Store:
		p, ok := e.get(fr, x.Addr).(Ptr)
		if !ok {
			e.unsupported("store through %T", e.get(fr, x.Addr))
		}
		if p.idx == nil && p.c != nil {
			p = Ptr{c: e.viewAs(e.resolve(p, "store"), x.Val.Type())}
			e.checkIfaceAccess(p.c, x.Val.Type())
		}
		e.storePtr(p, e.get(fr, x.Val))
	case *ssa.UnOp:
		e.set(fr, x, e.unop(fr, x))
	case *ssa.BinOp:
		e.set(fr, x, e.binop(x.Op, e.get(fr, x.X), e.get(fr, x.Y), x.X.Type(), x.Y.Type()))
	case *ssa.Call:
		e.set(fr, x, e.doCall(fr, &x.Call))
	case *ssa.Extract:
		tp, ok := e.get(fr, x.Tuple).(Tuple)
		if !ok {
			e.unsupported("extract from %T", e.get(fr, x.Tuple))
		}
		e.set(fr, x, tp[x.Index])
	case *ssa.FieldAddr:
		p := e.get(fr, x.X).(Ptr)
		c := e.resolve(p, "field")
		c = e.viewAs(c, x.X.Type().Underlying().(*types.Pointer).Elem())
		if x.Field >= len(c.kids) {
			e.goPanic("invalid reinterpretation: field %d of %v viewed as %v", x.Field, c.typ, x.X.Type())
		}
		e.set(fr, x, Ptr{c: c.kids[x.Field]})
	case *ssa.Field:
		a, ok := e.get(fr, x.X).(Agg)
		if !ok {
			e.unsupported("field of %T", e.get(fr, x.X))
		}
		e.set(fr, x, a.f[x.Field])
	case *ssa.IndexAddr:
		idx := e.idxTerm(fr, x.Index)
		switch b := e.get(fr, x.X).(type) {
		case Slice:
			e.inBounds(idx, b.len, false, "index")
			if idx.IsConst() {
				e.set(fr, x, Ptr{c: b.arr.kids[b.off+int(idx.C)]})
			} else {
				e.set(fr, x, Ptr{c: b.arr, idx: e.tf.Bin(OAdd, idx, e.K(64, uint64(b.off))), lo: b.off, n: b.len})
			}
		case Ptr:
			c := e.resolve(b, "index")
			e.inBounds(idx, len(c.kids), false, "index")
			if idx.IsConst() {
				e.set(fr, x, Ptr{c: c.kids[int(idx.C)]})
			} else {
				e.set(fr, x, Ptr{c: c, idx: idx, lo: 0, n: len(c.kids)})
			}
		default:
			e.unsupported("IndexAddr on %T", b)
		}
	case *ssa.Index:
		switch a := e.get(fr, x.X).(type) {
		case Slice:
			e.set(fr, x, e.indexSlice(a, e.idxTerm(fr, x.Index), "string index"))
		case Agg:
			idx := e.idxTerm(fr, x.Index)
			e.inBounds(idx, len(a.f), false, "index")
			if idx.IsConst() {
				e.set(fr, x, a.f[int(idx.C)])
			} else {
				e.set(fr, x, e.selectVal(a.f, idx, 0))
			}
		default:
			e.unsupported("Index on %T", a)
		}
	case *ssa.MakeMap:
		if x.Reserve != nil {
			if rt, ok := e.get(fr, x.Reserve).(*Term); ok && !rt.IsConst() {
				e.allocGuard(e.tf.Resize(rt, 64, true), 16)
			}
		}
		e.set(fr, x, &MapObj{epoch: e.epoch, kt: x.Type().Underlying().(*types.Map).Key(), vt: x.Type().Underlying().(*types.Map).Elem()})
	case *ssa.MapUpdate:
		m, ok := e.get(fr, x.Map).(*MapObj)
		if !ok {
			e.unsupported("MapUpdate on %T", e.get(fr, x.Map))
		}
		e.mapUpdate(m, e.get(fr, x.Key), e.get(fr, x.Value))
	case *ssa.Range:
		switch m := e.get(fr, x.X).(type) {
		case *MapObj:
			it := &MapIter{m: m}
			if m != nil {
				it.keys, it.vals = e.mapOrder(m)
			}
			e.set(fr, x, it)
		case Slice:
			mm := m
			e.set(fr, x, &MapIter{str: &mm})
		default:
			e.unsupported("range over %T", m)
		}
	case *ssa.Next:
		it := e.get(fr, x.Iter).(*MapIter)
		if x.IsString {
			s := *it.str
			if it.pos >= s.len {
				e.set(fr, x, Tuple{e.KB(false), e.K(64, 0), e.K(32, 0)})
				return
			}
			str, ok := e.tryGoString(Slice{arr: s.arr, off: s.off + it.pos, len: min(4, s.len-it.pos), str: true})
			if !ok {
				e.unsupported("range over symbolic string")
			}
			r, sz := utf8.DecodeRuneInString(str)
			e.set(fr, x, Tuple{e.KB(true), e.K(64, uint64(it.pos)), e.K(32, uint64(r))})
			it.pos += sz
			return
		}
		mt := x.Iter.(*ssa.Range).X.Type().Underlying().(*types.Map)
		if it.m == nil || it.pos >= len(it.keys) {
			e.set(fr, x, Tuple{e.KB(false), e.zero(mt.Key()), e.zero(mt.Elem())})
		} else {
			e.set(fr, x, Tuple{e.KB(true), it.keys[it.pos], it.vals[it.pos]})
			it.pos++
		}
	case *ssa.Lookup:
		switch m := e.get(fr, x.X).(type) {
		case *MapObj:
			v, ok := e.mapLookup(m, e.get(fr, x.Index))
			if !ok {
				v = e.zero(x.X.Type().Underlying().(*types.Map).Elem())
			}
			if x.CommaOk {
				e.set(fr, x, Tuple{v, e.KB(ok)})
			} else {
				e.set(fr, x, v)
			}
		case Slice:
			e.set(fr, x, e.indexSlice(m, e.idxTerm(fr, x.Index), "string index"))
		default:
			e.unsupported("Lookup on %T", m)
		}
	case *ssa.Slice:
		e.set(fr, x, e.slice(fr, x))
	case *ssa.MakeSlice:
		lt, ct := e.idxTerm(fr, x.Len), e.idxTerm(fr, x.Cap)
		et := x.Type().Underlying().(*types.Slice).Elem()
		e.allocGuard(ct, int(e.sizes.Sizeof(et)))
		c := e.boundedIndex(ct, e.run.allocLimit(), true, "makeslice cap")
		n := e.boundedIndex(lt, c, true, "makeslice len")
		arr := e.newArray(et, c)
		e.set(fr, x, Slice{arr: arr, len: n, cap: c})
	case *ssa.MakeInterface:
		e.set(fr, x, Iface{typ: x.X.Type(), v: e.get(fr, x.X)})
	case *ssa.ChangeInterface:
		e.set(fr, x, e.get(fr, x.X))
	case *ssa.ChangeType:
		e.set(fr, x, e.get(fr, x.X))
	case *ssa.Convert:
		e.set(fr, x, e.convert(e.get(fr, x.X), x.X.Type(), x.Type()))
	case *ssa.SliceToArrayPointer:
		s := e.get(fr, x.X).(Slice)
		n := int(x.Type().Underlying().(*types.Pointer).Elem().Underlying().(*types.Array).Len())
		if s.len < n {
			e.goPanic("runtime error: cannot convert slice with length %d to array or pointer to array with length %d", s.len, n)
		}
		if s.arr == nil {
			e.set(fr, x, Ptr{})
			return
		}
		view := &Cell{typ: x.Type().Underlying().(*types.Pointer).Elem(), kids: s.arr.kids[s.off : s.off+n], epoch: s.arr.epoch}
		e.set(fr, x, Ptr{c: view})
	case *ssa.TypeAssert:
		e.set(fr, x, e.typeAssert(fr, x))
	case *ssa.MakeClosure:
		b := make([]Val, len(x.Bindings))
		for i, v := range x.Bindings {
			b[i] = e.get(fr, v)
		}
		e.set(fr, x, Closure{fn: x.Fn.(*ssa.Function), bind: b})
	default:
		e.unsupported("instruction %T in %s", in, fr.fn)
	}
}

// allocGuard is the allocation monitor: an allocation whose size the path
// condition does not bound by the harness limit ends the path as a finding.
func (e *Engine) allocGuard(n *Term, elemSize int) {
	lim := e.run.allocLimit()
	if n.IsConst() {
		if int64(n.C) > int64(lim) {
			e.goPanic("alloc: allocation of %d elements exceeds the harness limit %d", int64(n.C), lim)
		}
		return
	}
	neg := e.tf.Bin(OSlt, n, e.K(64, 0))
	if e.decide(neg) {
		e.goPanic("runtime error: makeslice: len out of range")
	}
	// prefer a witness that a native replay can tell from honest use: an enormous size
	huge := e.tf.Bin(OSlt, e.K(64, 1<<28), n)
	if e.decide(huge) {
		v := int64(0)
		if e.model != nil {
			v = int64(e.ev.Eval(n, e.model))
		}
		e.goPanic("alloc: allocation of %d elements not backed by input (limit %d)", v, lim)
	}
	big := e.tf.Bin(OSlt, e.K(64, uint64(lim)), n)
	if e.decide(big) {
		v := int64(0)
		if e.model != nil {
			v = int64(e.ev.Eval(n, e.model))
		}
		e.goPanic("alloc: allocation of %d elements not backed by input (limit %d)", v, lim)
	}
}

func (e *Engine) selectVal(vals []Val, idx *Term, base int) Val {
	all := make([]*Term, 0, len(vals))
	for _, v := range vals {
		if t, ok := v.(*Term); ok {
			all = append(all, t)
		}
	}
	if len(all) == len(vals) {
		return e.iteChain(all, idx, base)
	}
	res, ok := vals[len(vals)-1].(*Term)
	if !ok {
		i := e.concretize(idx, "index")
		return vals[i-base]
	}
	for i := len(vals) - 2; i >= 0; i-- {
		t, ok := vals[i].(*Term)
		if !ok {
			j := e.concretize(idx, "index")
			return vals[j-base]
		}
		res = e.tf.Ite(e.tf.Bin(OUle, idx, e.K(64, uint64(base+i))), t, res)
	}
	return res
}

func (e *Engine) indexSlice(s Slice, idx *Term, what string) Val {
	e.inBounds(idx, s.len, false, what)
	if idx.IsConst() {
		return e.load(s.arr.kids[s.off+int(idx.C)])
	}
	return e.loadPtr(Ptr{c: s.arr, idx: e.tf.Bin(OAdd, idx, e.K(64, uint64(s.off))), lo: s.off, n: s.len})
}

func (e *Engine) slice(fr *frame, x *ssa.Slice) Val {
	var base Slice
	switch b := e.get(fr, x.X).(type) {
	case Slice:
		base = b
	case Ptr:
		c := e.resolve(b, "slice of array pointer")
		base = Slice{arr: c, len: len(c.kids), cap: len(c.kids)}
	default:
		e.unsupported("slice of %T", b)
	}
	lim := base.cap
	if base.str {
		lim = base.len
	}
	lo, hi, mx := 0, base.len, base.cap
	if x.Max != nil {
		mx = e.boundedIndex(e.idxTerm(fr, x.Max), base.cap, true, "slice bounds max")
		lim = mx
	}
	if x.High != nil {
		hi = e.boundedIndex(e.idxTerm(fr, x.High), lim, true, "slice bounds high")
	}
	if x.Low != nil {
		lo = e.boundedIndex(e.idxTerm(fr, x.Low), hi, true, "slice bounds low")
	}
	if base.arr == nil {
		return Slice{str: base.str}
	}
	if base.str {
		return Slice{arr: base.arr, off: base.off + lo, len: hi - lo, cap: hi - lo, str: true}
	}
	return Slice{arr: base.arr, off: base.off + lo, len: hi - lo, cap: mx - lo, str: base.str}
}

func (e *Engine) unop(fr *frame, x *ssa.UnOp) Val {
	v := e.get(fr, x.X)
	switch x.Op {
	case token.MUL:
		p, ok := v.(Ptr)
		if !ok {
			e.unsupported("load through %T", v)
		}
		if p.idx == nil && p.c != nil {
			p = Ptr{c: e.viewAs(e.resolve(p, "load"), x.Type())}
			e.checkIfaceAccess(p.c, x.Type())
		}
		val := e.loadPtr(p)
		return e.checkView(val, x.Type())
	case token.NOT:
		return e.tf.Not(v.(*Term))
	case token.SUB:
		t := v.(*Term)
		if isFloat(x.X.Type()) {
			return e.tf.Bin(OXor, t, e.K(int(t.W), uint64(1)<<(t.W-1)))
		}
		return e.tf.Neg(t)
	case token.XOR:
		return e.tf.BvNot(v.(*Term))
	}
	e.unsupported("unop %v", x.Op)
	return nil
}

// checkView reports loads through a pointer whose static element type has a
// different shape from the stored value (invalid unsafe reinterpretation).
func (e *Engine) checkView(v Val, t types.Type) Val {
	switch t.Underlying().(type) {
	case *types.Map:
		if p, isPtr := v.(Ptr); isPtr {
			// a map value read from memory that holds "the map's pointer" (see
			// reflect.Value.Pointer on maps)
			if p.c == nil {
				return (*MapObj)(nil)
			}
			if mo, ok := p.c.val.(*MapObj); ok {
				v = mo
			}
		}
		if m, ok := v.(*MapObj); ok && m != nil && m.kt != nil {
			kt := t.Underlying().(*types.Map).Key()
			if !shapeCompatible(m.kt, kt) {
				e.goPanic("invalid reinterpretation: map with key type %v viewed as %v", m.kt, t)
			}
			// element types: interface values with and without methods are laid out
			// differently (other element shapes are checked when an element is used)
			if vt := t.Underlying().(*types.Map).Elem(); m.vt != nil {
				_, ai := m.vt.Underlying().(*types.Interface)
				_, bi := vt.Underlying().(*types.Interface)
				if ai && bi && !shapeCompatible(m.vt, vt) {
					e.goPanic("invalid reinterpretation: map with element type %v viewed as %v", m.vt, t)
				}
			}
		}
	}
	return v
}

// checkIfaceAccess: memory holding an interface value is accessed as an interface
// type t (through a pointer obtained by an unsafe conversion, otherwise the types
// agree): the empty interface and interfaces with methods are not interchangeable.
func (e *Engine) checkIfaceAccess(c *Cell, t types.Type) {
	if c == nil || c.typ == nil || t == nil {
		return
	}
	if _, ok := t.Underlying().(*types.Interface); !ok {
		return
	}
	if _, ok := c.typ.Underlying().(*types.Interface); !ok {
		return
	}
	if !shapeCompatible(c.typ, t) {
		e.goPanic("invalid reinterpretation: interface value of type %v accessed as %v", c.typ, t)
	}
}

func shapeCompatible(a, b types.Type) bool {
	if types.Identical(a.Underlying(), b.Underlying()) {
		return true
	}
	// interface values: the empty interface (type word, data) and interfaces with
	// methods (method table, data) are laid out differently, and the method table
	// belongs to one interface type
	ia, ai := a.Underlying().(*types.Interface)
	ib, bi := b.Underlying().(*types.Interface)
	return ai && bi && ia.NumMethods() == 0 && ib.NumMethods() == 0
}

func (e *Engine) ptrAdd(c *Cell, off int64) *Cell {
	for {
		if off == 0 && !isAggType(c.typ) {
			return c
		}
		switch u := c.typ.Underlying().(type) {
		case *types.Struct:
			offs := e.sizes.Offsetsof(fieldVars(u))
			idx := -1
			for i := range offs {
				if offs[i] <= off && off < offs[i]+e.sizes.Sizeof(u.Field(i).Type()) {
					idx = i
					break
				}
			}
			if idx < 0 {
				if off == 0 {
					return c
				}
				e.goPanic("invalid pointer arithmetic: offset %d leaves object of type %v", off, c.typ)
			}
			if off == 0 && idx == 0 {
				return c // pointer to the struct itself; a later cast to the first field is resolved on use
			}
			off -= offs[idx]
			c = c.kids[idx]
		case *types.Array:
			sz := e.sizes.Sizeof(u.Elem())
			if sz == 0 {
				return c
			}
			i := off / sz
			if i < 0 || i >= u.Len() {
				e.goPanic("invalid pointer arithmetic: offset leaves array")
			}
			if off == 0 {
				return c
			}
			off -= i * sz
			c = c.kids[i]
		default:
			e.goPanic("invalid pointer arithmetic: offset %d into scalar %v", off, c.typ)
		}
	}
}

func (e *Engine) binop(op token.Token, a, b Val, at, bt types.Type) Val {
	if p, isP := a.(Ptr); isP && (op == token.XOR || op == token.OR || op == token.AND_NOT) {
		if t, isT := b.(*Term); isT && t.IsConst() && t.C == 0 {
			return p // x ^ 0 (abi.NoEscape, strings.Builder): the same pointer
		}
	}
	if p, isP := a.(Ptr); isP && (op == token.ADD || op == token.SUB) {
		if k, isT := b.(*Term); isT {
			if !k.IsConst() {
				e.unsupported("pointer arithmetic with symbolic offset")
			}
			if p.c == nil {
				e.goPanic("invalid pointer arithmetic on nil pointer")
			}
			d := int64(k.C)
			if op == token.SUB {
				d = -d
			}
			return Ptr{c: p.c, off: p.off + d, raw: true}
		}
	}
	ta, okA := a.(*Term)
	tb, okB := b.(*Term)
	if okA && okB {
		w, signed, _ := intWidth(at)
		if w == 0 || ta.W == 0 { // booleans
			switch op {
			case token.EQL:
				return e.tf.Eq(ta, tb)
			case token.NEQ:
				return e.tf.Not(e.tf.Eq(ta, tb))
			}
			e.unsupported("bool binop %v", op)
		}
		if isFloat(at) {
			return e.floatBinop(op, ta, tb)
		}
		switch op {
		case token.ADD:
			return e.tf.Bin(OAdd, ta, tb)
		case token.SUB:
			return e.tf.Bin(OSub, ta, tb)
		case token.MUL:
			return e.tf.Bin(OMul, ta, tb)
		case token.AND:
			return e.tf.Bin(OAnd, ta, tb)
		case token.OR:
			return e.tf.Bin(OOr, ta, tb)
		case token.XOR:
			return e.tf.Bin(OXor, ta, tb)
		case token.AND_NOT:
			return e.tf.Bin(OAnd, ta, e.tf.BvNot(tb))
		case token.QUO, token.REM:
			if e.decide(e.tf.Eq(tb, e.K(int(tb.W), 0))) {
				e.goPanic("runtime error: integer divide by zero")
			}
			var o Op
			switch {
			case signed && op == token.QUO:
				o = OSDiv
			case signed:
				o = OSRem
			case op == token.QUO:
				o = OUDiv
			default:
				o = OURem
			}
			return e.tf.Bin(o, ta, tb)
		case token.SHL, token.SHR:
			// Go: the count is unsigned (or a non-negative signed value); count >= width
			// gives 0 / sign fill.
			_, bsigned, _ := intWidth(bt)
			if bsigned {
				if e.decide(e.tf.Bin(OSlt, tb, e.K(int(tb.W), 0))) {
					e.goPanic("runtime error: negative shift amount")
				}
			}
			cnt := tb
			aw := int(ta.W)
			if int(tb.W) > aw {
				big := e.tf.Not(e.tf.Bin(OUlt, tb, e.K(int(tb.W), uint64(aw))))
				cnt = e.tf.Ite(big, e.K(aw, uint64(aw)), e.tf.Resize(tb, aw, false))
			} else {
				cnt = e.tf.Resize(tb, aw, false)
			}
			if op == token.SHL {
				return e.tf.Bin(OShl, ta, cnt)
			}
			if signed {
				return e.tf.Bin(OAShr, ta, cnt)
			}
			return e.tf.Bin(OLShr, ta, cnt)
		case token.EQL:
			return e.tf.Eq(ta, tb)
		case token.NEQ:
			return e.tf.Not(e.tf.Eq(ta, tb))
		case token.LSS:
			if signed {
				return e.tf.Bin(OSlt, ta, tb)
			}
			return e.tf.Bin(OUlt, ta, tb)
		case token.LEQ:
			if signed {
				return e.tf.Bin(OSle, ta, tb)
			}
			return e.tf.Bin(OUle, ta, tb)
		case token.GTR:
			if signed {
				return e.tf.Bin(OSlt, tb, ta)
			}
			return e.tf.Bin(OUlt, tb, ta)
		case token.GEQ:
			if signed {
				return e.tf.Bin(OSle, tb, ta)
			}
			return e.tf.Bin(OUle, tb, ta)
		}
		e.unsupported("int binop %v", op)
	}
	// strings
	if sa, ok := a.(Slice); ok && sa.str {
		sb := b.(Slice)
		switch op {
		case token.ADD:
			ts := append(e.sliceTerms(sa), e.sliceTerms(sb)...)
			r := e.bytesVal(ts)
			r.str = true
			if r.len == 0 {
				return Slice{str: true}
			}
			return r
		case token.LSS, token.LEQ, token.GTR, token.GEQ:
			x, ok1 := e.tryGoString(sa)
			y, ok2 := e.tryGoString(sb)
			if !ok1 || !ok2 {
				e.unsupported("ordered comparison of symbolic strings")
			}
			switch op {
			case token.LSS:
				return e.KB(x < y)
			case token.LEQ:
				return e.KB(x <= y)
			case token.GTR:
				return e.KB(x > y)
			}
			return e.KB(x >= y)
		}
	}
	switch op {
	case token.EQL:
		return e.valEq(a, b)
	case token.NEQ:
		return e.tf.Not(e.valEq(a, b))
	}
	e.unsupported("binop %v on %T,%T", op, a, b)
	return nil
}

func (e *Engine) floatBinop(op token.Token, a, b *Term) Val {
	switch op {
	case token.EQL:
		return e.tf.Bin(OFEq, a, b)
	case token.NEQ:
		return e.tf.Not(e.tf.Bin(OFEq, a, b))
	case token.LSS:
		return e.tf.Bin(OFLt, a, b)
	case token.LEQ:
		return e.tf.Bin(OFLe, a, b)
	case token.GTR:
		return e.tf.Bin(OFLt, b, a)
	case token.GEQ:
		return e.tf.Bin(OFLe, b, a)
	}
	if a.IsConst() && b.IsConst() {
		w := int(a.W)
		x, y := fbits(w, a.C), fbits(w, b.C)
		var r float64
		switch op {
		case token.ADD:
			r = x + y
		case token.SUB:
			r = x - y
		case token.MUL:
			r = x * y
		case token.QUO:
			r = x / y
		default:
			e.unsupported("float binop %v", op)
		}
		if w == 32 {
			return e.K(32, uint64(math.Float32bits(float32(r))))
		}
		return e.K(64, math.Float64bits(r))
	}
	switch op {
	case token.ADD:
		return e.tf.Bin(OFAdd, a, b)
	case token.SUB:
		return e.tf.Bin(OFSub, a, b)
	case token.MUL:
		return e.tf.Bin(OFMul, a, b)
	case token.QUO:
		return e.tf.Bin(OFDiv, a, b)
	}
	e.unsupported("symbolic float arithmetic %v", op)
	return nil
}

func (e *Engine) convert(v Val, from, to types.Type) Val {
	if t, ok := v.(*Term); ok {
		wf, sf, okf := intWidth(from)
		wt, st, ok2 := intWidth(to)
		if isString(to) && okf {
			// string(rune)
			if !t.IsConst() {
				e.unsupported("string(symbolic rune)")
			}
			return e.stringVal(string(rune(sext(t.C, wf))))
		}
		if _, isPtr := to.Underlying().(*types.Basic); isPtr && to.Underlying().(*types.Basic).Kind() == types.UnsafePointer {
			if t.IsConst() && t.C == 0 {
				return Ptr{}
			}
			e.goPanic("invalid pointer conversion: integer without provenance converted to unsafe.Pointer")
		}
		if !ok2 || !okf {
			e.unsupported("convert %v -> %v", from, to)
		}
		ff, tf := isFloat(from), isFloat(to)
		switch {
		case ff && tf:
			return e.tf.FCvt(t, wt)
		case ff:
			return e.tf.FToInt(t, wt, st)
		case tf:
			return e.tf.IntToF(t, wt, sf)
		}
		return e.tf.Resize(t, wt, sf)
	}
	switch x := v.(type) {
	case Ptr:
		// *T <-> unsafe.Pointer <-> uintptr
		if tb, ok := to.Underlying().(*types.Basic); ok && tb.Kind() == types.Uintptr {
			if x.c == nil {
				return e.K(64, 0)
			}
			x.raw = true
			return x
		}
		if x.raw {
			if x.c == nil {
				return Ptr{}
			}
			return Ptr{c: e.ptrAdd(x.c, x.off)}
		}
		return x
	case Slice:
		// string <-> []byte: copy; []rune unsupported
		if sl, ok := to.Underlying().(*types.Slice); ok {
			if b, ok := sl.Elem().Underlying().(*types.Basic); !ok || b.Kind() != types.Uint8 {
				e.unsupported("conversion to %v", to)
			}
		}
		if sl, ok := from.Underlying().(*types.Slice); ok {
			if b, ok := sl.Elem().Underlying().(*types.Basic); !ok || b.Kind() != types.Uint8 {
				e.unsupported("conversion from %v", from)
			}
		}
		toStr := isString(to)
		if x.len == 0 {
			if toStr {
				return Slice{str: true}
			}
			return Slice{arr: e.newArray(types.Typ[types.Uint8], 0)}
		}
		arr := e.newArray(types.Typ[types.Uint8], x.len)
		for i := 0; i < x.len; i++ {
			arr.kids[i].val = e.load(x.arr.kids[x.off+i])
			arr.kids[i].ro = toStr
		}
		return Slice{arr: arr, len: x.len, cap: x.len, str: toStr}
	}
	e.unsupported("convert %T %v -> %v", v, from, to)
	return nil
}

func (e *Engine) typeAssert(fr *frame, x *ssa.TypeAssert) Val {
	v, isI := e.get(fr, x.X).(Iface)
	if !isI {
		e.unsupported("type assert on %T", e.get(fr, x.X))
	}
	ok := false
	var res Val
	if v.typ != nil {
		if it, isI := x.AssertedType.Underlying().(*types.Interface); isI {
			if _, isRT := v.v.(RT); isRT {
				ok = true // reflect.Type values satisfy reflect.Type only; good enough for the model
			} else {
				ok = types.Implements(v.typ, it)
			}
			res = v
		} else {
			ok = types.Identical(v.typ, x.AssertedType)
			res = v.v
		}
	}
	if x.CommaOk {
		if !ok {
			res = e.zero(x.AssertedType)
		}
		return Tuple{res, e.KB(ok)}
	}
	if !ok {
		e.goPanic("interface conversion: %v is not %v", v.typ, x.AssertedType)
	}
	return res
}

// valEq: symbolic equality of two engine values.
func (e *Engine) valEq(a, b Val) *Term {
	switch x := a.(type) {
	case *Term:
		y, ok := b.(*Term)
		if !ok || y.W != x.W {
			return e.KB(false)
		}
		return e.tf.Eq(x, y)
	case Slice:
		y, ok := b.(Slice)
		if !ok {
			return e.KB(false)
		}
		if !x.str && !y.str { // slice == nil
			return e.KB(x.arr == nil && y.arr == nil)
		}
		if x.len != y.len {
			return e.KB(false)
		}
		r := e.KB(true)
		for i := 0; i < x.len; i++ {
			r = e.tf.And(r, e.tf.Eq(e.load(x.arr.kids[x.off+i]).(*Term), e.load(y.arr.kids[y.off+i]).(*Term)))
		}
		return r
	case Ptr:
		y, ok := b.(Ptr)
		if !ok {
			return e.KB(false)
		}
		if x.idx != nil || y.idx != nil {
			e.unsupported("comparison of symbolic pointers")
		}
		return e.KB(x.c == y.c && x.off == y.off)
	case RT:
		y, ok := b.(RT)
		return e.KB(ok && types.Identical(x.t, y.t))
	case Iface:
		y, ok := b.(Iface)
		if !ok {
			return e.KB(false)
		}
		if x.typ == nil || y.typ == nil {
			return e.KB(x.typ == nil && y.typ == nil)
		}
		if !types.Identical(x.typ, y.typ) {
			return e.KB(false)
		}
		return e.valEq(x.v, y.v)
	case Agg:
		y, ok := b.(Agg)
		if !ok || len(x.f) != len(y.f) {
			return e.KB(false)
		}
		r := e.KB(true)
		for i := range x.f {
			r = e.tf.And(r, e.valEq(x.f[i], y.f[i]))
		}
		return r
	case nil:
		return e.KB(b == nil)
	case *MapObj:
		y, ok := b.(*MapObj)
		return e.KB(ok && x == nil && y == nil)
	case *ssa.Function:
		return e.KB(b == nil && x == nil)
	case Closure:
		return e.KB(false)
	case RV:
		e.unsupported("comparison of reflect.Value")
	}
	e.unsupported("valEq on %T", a)
	return nil
}

// ---------------------------------------------------------------- maps

func (e *Engine) mapLookup(m *MapObj, k Val) (Val, bool) {
	if m == nil {
		return nil, false
	}
	for i := range m.keys {
		if e.decide(e.valEq(m.keys[i], k)) {
			return m.vals[i], true
		}
	}
	return nil, false
}

func (e *Engine) mapUpdate(m *MapObj, k, v Val) {
	if m == nil {
		e.goPanic("assignment to entry in nil map")
	}
	for i := range m.keys {
		if e.decide(e.valEq(m.keys[i], k)) {
			e.touchMap(m)
			m.vals[i] = v
			return
		}
	}
	e.touchMap(m)
	m.keys = append(m.keys, k)
	m.vals = append(m.vals, v)
}

// mapOrder returns the iteration order for a range over m. Go leaves the order
// unspecified; for up to 3 entries every permutation is explored (fork), beyond
// that insertion order and its reverse.
func (e *Engine) mapOrder(m *MapObj) ([]Val, []Val) {
	n := len(m.keys)
	if n <= 1 || e.inInit {
		return append([]Val{}, m.keys...), append([]Val{}, m.vals...)
	}
	var perms [][]int
	if n <= 3 {
		perms = permutations(n)
	} else {
		id, rev := make([]int, n), make([]int, n)
		for i := range id {
			id[i], rev[i] = i, n-1-i
		}
		perms = [][]int{id, rev}
	}
	e.path.MapOrder = true // native iteration order is the runtime's: not predictable
	p := perms[e.chooseInt(0, len(perms)-1)]
	ks, vs := make([]Val, n), make([]Val, n)
	for i, j := range p {
		ks[i], vs[i] = m.keys[j], m.vals[j]
	}
	return ks, vs
}

func permutations(n int) [][]int {
	var out [][]int
	var rec func(cur []int, used int)
	rec = func(cur []int, used int) {
		if len(cur) == n {
			out = append(out, append([]int{}, cur...))
			return
		}
		for i := 0; i < n; i++ {
			if used&(1<<uint(i)) == 0 {
				rec(append(cur, i), used|1<<uint(i))
			}
		}
	}
	rec(nil, 0)
	return out
}

var _ = strings.HasPrefix
