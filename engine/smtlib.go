package main

import (
	"bytes"
	"fmt"
	"os"
	"os/exec"
	"strconv"
	"strings"
)

// SMT-LIB2 text back end: cvc5 (integer encoding of bit-vectors for the
// multiply/divide kernels), z3 5.x and plain cvc5, used for escalation and for
// the cross-solver self check.

type textQuery struct {
	Text   string
	Result Res
	Solver string
}

type printer struct {
	buf  bytes.Buffer
	id   map[*Term]string
	vars map[string]bool
}

func sortStr(w int) string {
	if w == 0 {
		return "Bool"
	}
	return fmt.Sprintf("(_ BitVec %d)", w)
}

func fpSort(w int) string {
	if w == 32 {
		return "(_ FloatingPoint 8 24)"
	}
	return "(_ FloatingPoint 11 53)"
}

func fpTo(w int) string {
	if w == 32 {
		return "(_ to_fp 8 24)"
	}
	return "(_ to_fp 11 53)"
}

func smtName(s string) string {
	ok := true
	for _, c := range s {
		if !(c >= 'a' && c <= 'z' || c >= 'A' && c <= 'Z' || c >= '0' && c <= '9' || c == '_' || c == '.') {
			ok = false
		}
	}
	if ok {
		return s
	}
	return "|" + s + "|"
}

func (p *printer) fp(t *Term) string {
	return fmt.Sprintf("(%s %s)", fpTo(int(t.W)), p.ref(t))
}

func (p *printer) ref(t *Term) string {
	if s, ok := p.id[t]; ok {
		return s
	}
	w := int(t.W)
	var expr string
	switch t.Op {
	case OConst:
		if t.W == 0 {
			if t.C == 1 {
				return "true"
			}
			return "false"
		}
		return fmt.Sprintf("(_ bv%d %d)", t.C, t.W)
	case OVar:
		n := smtName(t.Name)
		if !p.vars[t.Name] {
			p.vars[t.Name] = true
			fmt.Fprintf(&p.buf, "(declare-const %s %s)\n", n, sortStr(w))
		}
		return n
	case OZExt:
		expr = fmt.Sprintf("((_ zero_extend %d) %s)", w-int(t.A[0].W), p.ref(t.A[0]))
	case OSExt:
		expr = fmt.Sprintf("((_ sign_extend %d) %s)", w-int(t.A[0].W), p.ref(t.A[0]))
	case OExtract:
		expr = fmt.Sprintf("((_ extract %d 0) %s)", w-1, p.ref(t.A[0]))
	case OFEq:
		expr = fmt.Sprintf("(fp.eq %s %s)", p.fp(t.A[0]), p.fp(t.A[1]))
	case OFLt:
		expr = fmt.Sprintf("(fp.lt %s %s)", p.fp(t.A[0]), p.fp(t.A[1]))
	case OFLe:
		expr = fmt.Sprintf("(fp.leq %s %s)", p.fp(t.A[0]), p.fp(t.A[1]))
	case OFToSI:
		expr = fmt.Sprintf("((_ fp.to_sbv %d) RTZ %s)", w, p.fp(t.A[0]))
	case OFToUI:
		expr = fmt.Sprintf("((_ fp.to_ubv %d) RTZ %s)", w, p.fp(t.A[0]))
	case OFCvt, OSIToF, OUIToF, OFAdd, OFSub, OFMul, OFDiv, OFRnd, OFSqrt:
		// result is a float carried as bits: introduce a fresh bv constrained through to_fp
		name := fmt.Sprintf("fpb%d", len(p.id))
		fmt.Fprintf(&p.buf, "(declare-const %s %s)\n", name, sortStr(w))
		var src string
		switch t.Op {
		case OFAdd, OFSub, OFMul, OFDiv:
			src = fmt.Sprintf("(%s RNE %s %s)", map[Op]string{OFAdd: "fp.add", OFSub: "fp.sub", OFMul: "fp.mul", OFDiv: "fp.div"}[t.Op], p.fp(t.A[0]), p.fp(t.A[1]))
		case OFSqrt:
			src = fmt.Sprintf("(fp.sqrt RNE %s)", p.fp(t.A[0]))
		case OFRnd:
			src = fmt.Sprintf("(fp.roundToIntegral %s %s)", []string{"RTZ", "RTN", "RTP", "RNA", "RNE"}[t.C], p.fp(t.A[0]))
		case OFCvt:
			src = fmt.Sprintf("(%s RNE %s)", fpTo(w), p.fp(t.A[0]))
		case OSIToF:
			src = fmt.Sprintf("(%s RNE %s)", fpTo(w), p.ref(t.A[0]))
		default:
			src = fmt.Sprintf("(%s RNE %s)", strings.Replace(fpTo(w), "to_fp", "to_fp_unsigned", 1), p.ref(t.A[0]))
		}
		fmt.Fprintf(&p.buf, "(assert (= (%s %s) %s))\n", fpTo(w), name, src)
		p.id[t] = name
		return name
	default:
		names := map[Op]string{OAdd: "bvadd", OSub: "bvsub", OMul: "bvmul", OUDiv: "bvudiv", OSDiv: "bvsdiv", OURem: "bvurem", OSRem: "bvsrem",
			OAnd: "bvand", OOr: "bvor", OXor: "bvxor", ONot: "bvnot", ONeg: "bvneg", OShl: "bvshl", OLShr: "bvlshr", OAShr: "bvashr",
			OEq: "=", OUlt: "bvult", OUle: "bvule", OSlt: "bvslt", OSle: "bvsle", OBNot: "not", OBAnd: "and", OBOr: "or", OIte: "ite"}
		var args []string
		for _, a := range t.A {
			if a != nil {
				args = append(args, p.ref(a))
			}
		}
		expr = "(" + names[t.Op] + " " + strings.Join(args, " ") + ")"
	}
	name := fmt.Sprintf("t%d", len(p.id))
	p.id[t] = name
	fmt.Fprintf(&p.buf, "(define-fun %s () %s %s)\n", name, sortStr(w), expr)
	return name
}

// smtText renders the conjunction as a complete SMT-LIB2 script.
func smtText(conj []*Term, vars []*Term) (string, []string) {
	p := &printer{id: map[*Term]string{}, vars: map[string]bool{}}
	p.buf.WriteString("(set-option :produce-models true)\n(set-logic ALL)\n")
	for _, c := range conj {
		r := p.ref(c)
		fmt.Fprintf(&p.buf, "(assert %s)\n", r)
	}
	var names []string
	for _, v := range vars {
		if p.vars[v.Name] {
			names = append(names, v.Name)
		}
	}
	p.buf.WriteString("(check-sat)\n")
	if len(names) > 0 {
		var q []string
		for _, n := range names {
			q = append(q, smtName(n))
		}
		fmt.Fprintf(&p.buf, "(get-value (%s))\n", strings.Join(q, " "))
	}
	return p.buf.String(), names
}

type textSolver struct {
	name string
	argv []string
}

var textSolversHard = []textSolver{
	{"cvc5-int", []string{"cvc5", "--solve-bv-as-int=sum", "--lang=smt2", "--produce-models"}},
	{"z3-new", []string{"z3-new", "-in"}},
	{"cvc5", []string{"cvc5", "--lang=smt2", "--produce-models"}},
}

var textSolversEasy = []textSolver{
	{"z3-new", []string{"z3-new", "-in"}},
	{"cvc5", []string{"cvc5", "--lang=smt2", "--produce-models"}},
}

func runTextSolver(ts textSolver, text string, timeoutMS int) (Res, string) {
	secs := (timeoutMS + 999) / 1000
	argv := append([]string{fmt.Sprint(secs + 1)}, ts.argv...)
	cmd := exec.Command("timeout", argv...)
	cmd.Stdin = strings.NewReader(text)
	out, _ := cmd.CombinedOutput()
	s := string(out)
	// output is in script order: an (error before the check-sat answer means the
	// solver did not see the whole problem (inconclusive). After "unsat" the only
	// error possible is the one for the unconditional get-value.
	if strings.HasPrefix(s, "unsat") {
		return Unsat, s
	}
	if strings.Contains(s, "(error") {
		return Unknown, s
	}
	switch {
	case strings.HasPrefix(s, "sat"):
		return Sat, s
	}
	return Unknown, s
}

func parseValues(out string, names []string) Model {
	m := Model{}
	for _, n := range names {
		key := "(" + smtName(n) + " "
		i := strings.Index(out, key)
		if i < 0 {
			continue
		}
		rest := out[i+len(key):]
		switch {
		case strings.HasPrefix(rest, "#b"):
			j := 2
			for j < len(rest) && (rest[j] == '0' || rest[j] == '1') {
				j++
			}
			v, _ := strconv.ParseUint(rest[2:j], 2, 64)
			m[n] = v
		case strings.HasPrefix(rest, "#x"):
			j := 2
			for j < len(rest) && strings.IndexByte("0123456789abcdefABCDEF", rest[j]) >= 0 {
				j++
			}
			v, _ := strconv.ParseUint(rest[2:j], 16, 64)
			m[n] = v
		case strings.HasPrefix(rest, "true"):
			m[n] = 1
		case strings.HasPrefix(rest, "false"):
			m[n] = 0
		case strings.HasPrefix(rest, "(_ bv"):
			j := 5
			for j < len(rest) && rest[j] >= '0' && rest[j] <= '9' {
				j++
			}
			v, _ := strconv.ParseUint(rest[5:j], 10, 64)
			m[n] = v
		}
	}
	return m
}

// textCheck decides the conjunction with the text back ends, in order, until one answers.
func textCheck(conj []*Term, vars []*Term, timeoutMS int, log *[]textQuery) (Res, Model) {
	text, names := smtText(conj, vars)
	if d := os.Getenv("GOSYM_DUMPQ"); d != "" {
		dumpSeq++
		os.WriteFile(fmt.Sprintf("%s/q%d.smt2", d, dumpSeq), []byte(text), 0o644)
	}
	hard := false
	for _, c := range conj {
		if c.hard {
			hard = true
		}
	}
	solvers := textSolversEasy
	if hard {
		solvers = textSolversHard
	}
	for _, ts := range solvers {
		r, out := runTextSolver(ts, text, timeoutMS)
		if r == Unknown {
			continue
		}
		if log != nil && len(*log) < 64 {
			*log = append(*log, textQuery{Text: text, Result: r, Solver: ts.name})
		}
		if r == Sat {
			return Sat, parseValues(out, names)
		}
		return Unsat, nil
	}
	return Unknown, nil
}

var dumpSeq int
