package main

import (
	"bufio"
	"bytes"
	"crypto/sha1"
	"encoding/json"
	"flag"
	"fmt"
	"golang.org/x/tools/go/ssa"
	"os"
	"os/exec"
	"path"
	"path/filepath"
	"runtime"
	"sort"
	"strconv"
	"strings"
	"time"
)

// ---------------------------------------------------------------- configuration

type TierCfg struct {
	BudgetS   int           `json:"budget_s"`
	Harnesses []HarnessSpec `json:"harnesses"`
}

type PropCfg struct {
	Level   string             `json:"level"`
	Outside []string           `json:"outside_claim"`
	Assume  []string           `json:"assumptions"`
	Tiers   map[string]TierCfg `json:"tiers"`
}

type KnownFinding struct {
	ID        string   `json:"id"`
	Property  string   `json:"property"`
	Harness   string   `json:"harness"`
	Kind      string   `json:"kind,omitempty"`
	Assertion string   `json:"assertion"`
	Tags      []string `json:"tags,omitempty"`
	What      string   `json:"what"`
}

type FixedFinding struct {
	Property string `json:"property"`
	Commit   string `json:"commit"`
	What     string `json:"what"`
}

type KnownFile struct {
	Findings []KnownFinding `json:"findings"`
	Fixed    []FixedFinding `json:"fixed"`
}

func globMatch(pat, s string) bool {
	if pat == "" || pat == "*" {
		return true
	}
	ok, err := path.Match(pat, s)
	if err == nil && ok {
		return true
	}
	// path.Match treats '/' specially; fall back to simple prefix/suffix stars
	if strings.HasSuffix(pat, "*") && strings.HasPrefix(s, strings.TrimSuffix(pat, "*")) {
		return true
	}
	if strings.HasPrefix(pat, "*") && strings.HasSuffix(s, strings.TrimPrefix(pat, "*")) {
		return true
	}
	if strings.HasPrefix(pat, "*") && strings.HasSuffix(pat, "*") && len(pat) > 2 && strings.Contains(s, pat[1:len(pat)-1]) {
		return true
	}
	return pat == s
}

func (k *KnownFinding) matches(prop string, c *Candidate) bool {
	propOK := k.Property == "*"
	for _, p := range strings.Split(k.Property, ",") {
		if strings.TrimSpace(p) == prop {
			propOK = true
		}
	}
	if !propOK || !globMatch(k.Harness, c.Harness) {
		return false
	}
	if k.Kind != "" && k.Kind != c.Kind {
		return false
	}
	if !globMatch(k.Assertion, c.ID) {
		return false
	}
	for _, t := range k.Tags {
		found := false
		for _, ct := range c.Tags {
			if ct == t {
				found = true
			}
		}
		if !found {
			return false
		}
	}
	return true
}

// ---------------------------------------------------------------- native replay

type ReplayResult struct {
	Status string
	Detail string
	Failed []string
	Tags   []string
	Obs    map[string]string
	Alloc  uint64
	Ran    bool
}

func runCmd(dir string, env []string, name string, args ...string) (string, error) {
	cmd := exec.Command(name, args...)
	cmd.Dir = dir
	cmd.Env = append(os.Environ(), env...)
	out, err := cmd.CombinedOutput()
	return string(out), err
}

func goEnvList() []string {
	return []string{"GOFLAGS=" + goFlags(), "GOPROXY=off", "GOSUMDB=off", "GOTOOLCHAIN=local"}
}

// buildReplay regenerates the harness registry and builds the native replay binary
// against /repo's current working tree.
func buildReplay() (string, error) {
	goEnv := goEnvList()
	out, err := runCmd(verifDir, goEnv, "make", "-s", "registry")
	if err != nil {
		return "", fmt.Errorf("make registry: %v\n%s", err, out)
	}
	bin := filepath.Join(verifDir, "bin", "replay")
	if altModDir != "" {
		bin = filepath.Join(altModDir, "replay") // do not disturb the binary built from /repo
	}
	out, err = runCmd(verifDir, goEnv, "go", "build", "-o", bin, "./harness/cmd/replay")
	if err != nil {
		return "", fmt.Errorf("go build replay: %v\n%s", err, out)
	}
	return bin, nil
}

// replayBatch runs the candidates natively and returns one result per candidate.
// baselineKey: harness name and parameters in a canonical order.
func baselineKey(hs HarnessSpec) string {
	var ks []string
	for k := range hs.Params {
		ks = append(ks, k)
	}
	sort.Strings(ks)
	key := hs.Name
	for _, k := range ks {
		key += fmt.Sprintf(",%s=%d", k, hs.Params[k])
	}
	return key
}

// cappedBuffer keeps at most max bytes and silently drops what follows.
type cappedBuffer struct {
	bytes.Buffer
	max     int
	dropped bool
}

func (b *cappedBuffer) Write(p []byte) (int, error) {
	if room := b.max - b.Len(); room < len(p) {
		b.dropped = true
		if room > 0 {
			b.Buffer.Write(p[:room])
		}
		return len(p), nil
	}
	return b.Buffer.Write(p)
}

func replayBatch(bin string, cands []*Candidate, deadline time.Duration) ([]ReplayResult, error) {
	res := make([]ReplayResult, len(cands))
	if len(cands) == 0 {
		return res, nil
	}
	dir, err := os.MkdirTemp("", "gosym-replay-")
	if err != nil {
		return nil, err
	}
	defer os.RemoveAll(dir)
	file := filepath.Join(dir, "batch.json")
	data, _ := json.Marshal(cands)
	if err := os.WriteFile(file, data, 0o644); err != nil {
		return nil, err
	}
	from := 0
	for from < len(cands) {
		cmd := exec.Command(bin, "-from", strconv.Itoa(from), "-deadline", deadline.String(), file)
		// the native run of a counterexample may print without bound (millions of
		// events observed, a runaway trace): keep the first 64 MiB, drop the rest
		buf := &cappedBuffer{max: 64 << 20}
		cmd.Stdout = buf
		cmd.Stderr = buf
		cmd.Env = append(os.Environ(), "GOMEMLIMIT=8GiB")
		runErr := cmd.Run()
		cur := -1
		last := from - 1
		sc := bufio.NewScanner(&buf.Buffer)
		sc.Buffer(make([]byte, 1<<20), 1<<27)
		var tail []string
		fatal := ""
		for sc.Scan() {
			l := sc.Text()
			if fatal == "" && (strings.Contains(l, "stack overflow") || strings.Contains(l, "goroutine stack exceeds") || strings.HasPrefix(l, "fatal error:")) {
				fatal = l
			}
			tail = append(tail, l)
			if len(tail) > 12 {
				tail = tail[1:]
			}
			switch {
			case strings.HasPrefix(l, "REPLAY-BEGIN "):
				f := strings.Fields(l)
				cur, _ = strconv.Atoi(f[1])
				res[cur].Obs = map[string]string{}
			case strings.HasPrefix(l, "REPLAY-END "):
				if cur >= 0 {
					res[cur].Ran = true
					last = cur
				}
				cur = -1
			case cur >= 0 && strings.HasPrefix(l, "REPLAY status="):
				res[cur].Status = strings.TrimPrefix(l, "REPLAY status=")
			case cur >= 0 && strings.HasPrefix(l, "REPLAY detail="):
				res[cur].Detail = strings.TrimPrefix(l, "REPLAY detail=")
			case cur >= 0 && strings.HasPrefix(l, "REPLAY failed="):
				res[cur].Failed = append(res[cur].Failed, strings.TrimPrefix(l, "REPLAY failed="))
			case cur >= 0 && strings.HasPrefix(l, "REPLAY tag="):
				res[cur].Tags = append(res[cur].Tags, strings.TrimPrefix(l, "REPLAY tag="))
			case cur >= 0 && strings.HasPrefix(l, "REPLAY alloc="):
				res[cur].Alloc, _ = strconv.ParseUint(strings.TrimPrefix(l, "REPLAY alloc="), 10, 64)
			case cur >= 0 && strings.HasPrefix(l, "REPLAY obs "):
				kv := strings.SplitN(strings.TrimPrefix(l, "REPLAY obs "), "=", 2)
				if len(kv) == 2 {
					res[cur].Obs[kv[0]] = kv[1]
				}
			}
		}
		if cur >= 0 && !res[cur].Ran {
			// the process died inside candidate cur (fatal error, out of memory, stack overflow)
			res[cur].Ran = true
			res[cur].Status = "crash"
			res[cur].Detail = fatal + " | " + strings.Join(tail, " | ")
			last = cur
		}
		if runErr == nil && last < len(cands)-1 && cur < 0 && last < from {
			return res, fmt.Errorf("replay made no progress at %d", from)
		}
		if last < from && runErr != nil && cur < 0 {
			return res, fmt.Errorf("replay failed: %v: %s", runErr, strings.Join(tail, " | "))
		}
		from = last + 1
		if runErr == nil {
			break
		}
	}
	return res, nil
}

// confirms reports whether the native result reproduces the candidate.
func confirms(c *Candidate, r *ReplayResult) bool {
	if !r.Ran {
		return false
	}
	switch c.Kind {
	case "assert":
		for _, f := range r.Failed {
			if f == c.ID {
				return true
			}
		}
		return false
	case "panic":
		// an engine-side memory-safety finding (pointer arithmetic leaving its object,
		// invalid reinterpretation) corrupts memory natively instead of panicking: a
		// failed native assertion on the same inputs confirms it
		return r.Status == "panic" || r.Status == "crash" || (strings.HasPrefix(c.ID, "unsafe@") && len(r.Failed) > 0)
	case "hang":
		return r.Status == "hang" || (r.Status == "crash" && strings.Contains(r.Detail, "stack"))
	case "race":
		return r.Status == "race"
	case "alloc":
		return r.Status == "crash" || r.Alloc > 64<<20 || (r.Status == "panic" && (strings.Contains(r.Detail, "makeslice") || strings.Contains(r.Detail, "out of memory") || strings.Contains(r.Detail, "out of range")))
	}
	return false
}

// ---------------------------------------------------------------- the check command

type harnessEvidence struct {
	Name         string                  `json:"name"`
	Params       map[string]int          `json:"bounds"`
	Paths        map[string]int          `json:"paths"`
	Complete     bool                    `json:"explored_to_completion"`
	Uncertain    int                     `json:"solver_inconclusive"`
	Asserts      map[string]*AssertCount `json:"assertions"`
	Unsupported  map[string]int          `json:"unsupported,omitempty"`
	GlobalStores map[string]int          `json:"stores_to_package_level_state,omitempty"`
	WallS        float64                 `json:"wall_s"`
	Steps        int64                   `json:"ssa_instructions"`
}

func cleanupAlt() {
	if altModDir != "" {
		os.RemoveAll(altModDir)
	}
}

func cmdCheck(args []string) int {
	defer cleanupAlt()
	fs := flag.NewFlagSet("check", flag.ExitOnError)
	prop := fs.String("prop", "", "property id")
	tier := fs.String("tier", "quick", "quick|thorough")
	workers := fs.Int("j", runtime.NumCPU(), "workers")
	only := fs.String("only", "", "development: run only the harnesses whose name starts with this (no evidence file is written)")
	fs.Parse(args)
	if t := os.Getenv("VERIF_TIER"); t != "" && !isFlagSet(fs, "tier") {
		*tier = t
	}
	seed := int64(1)
	if s := os.Getenv("VERIF_SEED"); s != "" {
		if v, err := strconv.ParseInt(s, 10, 64); err == nil {
			seed = v
		}
	}
	t0 := time.Now()

	var cfgs map[string]PropCfg
	if err := readJSON(filepath.Join(verifDir, "checks.json"), &cfgs); err != nil {
		fmt.Println("cannot read checks.json:", err)
		return 2
	}
	pc, ok := cfgs[*prop]
	if !ok {
		fmt.Println("no check configured for", *prop)
		return 2
	}
	tc, ok := pc.Tiers[*tier]
	if !ok {
		tc = pc.Tiers["quick"]
	}
	var known KnownFile
	readJSON(filepath.Join(verifDir, "known_findings.json"), &known)

	// native replay binary is built concurrently with SSA loading
	type buildRes struct {
		bin string
		err error
	}
	bch := make(chan buildRes, 1)
	go func() {
		b, err := buildReplay()
		bch <- buildRes{b, err}
	}()

	timeoutMS := 10000
	if *tier == "thorough" {
		timeoutMS = 60000
	}
	pg, loadT := loadProgram()
	engines := makeEngines(pg, *workers, timeoutMS)
	fmt.Printf("[%s/%s] SSA of /repo working tree + harnesses built in %.1fs, %d workers\n", *prop, *tier, loadT.Seconds(), len(engines))

	budget := time.Duration(tc.BudgetS) * time.Second
	if budget == 0 {
		budget = 10 * time.Minute
	}
	deadline := t0.Add(budget)
	baselinePaths := map[string]int{}
	readJSON(filepath.Join(verifDir, "baseline_paths.json"), &baselinePaths)

	// a harness name with '*' stands for every matching harness function (generated families)
	var specs []HarnessSpec
	for _, hs := range tc.Harnesses {
		if !strings.Contains(hs.Name, "*") {
			specs = append(specs, hs)
			continue
		}
		var names []string
		for _, p := range pg.hpkgs {
			for name, m := range p.Members {
				if _, isFn := m.(*ssa.Function); isFn && globMatch(hs.Name, name) {
					names = append(names, name)
				}
			}
		}
		sort.Slice(names, func(i, j int) bool { return natLess(names[i], names[j]) })
		if hs.MaxPaths > 0 && len(names) > hs.MaxPaths {
			names = names[:hs.MaxPaths] // for families MaxPaths limits the number of members
		}
		for _, n := range names {
			h2 := hs
			h2.Name = n
			h2.MaxPaths = 0
			specs = append(specs, h2)
		}
	}
	if *only != "" {
		var sel []HarnessSpec
		for _, hs := range specs {
			if strings.HasPrefix(hs.Name, *only) {
				sel = append(sel, hs)
			}
		}
		specs = sel
	}
	var runs []*HarnessRun
	quiet := len(specs) > 40
	for _, hs := range specs {
		fn := pg.harness(hs.Name)
		if fn == nil {
			fmt.Printf("harness %s not found\n", hs.Name)
			return 2
		}
		run := &HarnessRun{HarnessSpec: hs, fn: fn}
		// path cap from the last clean run on the unchanged tree (baseline_paths.json,
		// written by tools/update_baseline.py): a changed tree that multiplies the
		// number of paths of a harness by more than 20 is cut there (truncated run)
		if n, ok := baselinePaths[baselineKey(hs)]; ok && run.MaxPaths == 0 {
			run.MaxPaths = 20*n + 20000
		}
		// one harness gets at most a third of the tier budget: on a changed tree a
		// harness can run into an unbounded path tree; what it found until then is
		// reported, the rest of the check still runs (the run is marked truncated)
		hd := time.Now().Add(budget / 3)
		if hd.After(deadline) {
			hd = deadline
		}
		explore(pg, run, engines, seed, hd)
		runs = append(runs, run)
		if !quiet || run.Truncated || run.Paths["unsupported"] > 0 {
			fmt.Printf("  %-28s %v: %d paths %v in %.1fs%s\n", hs.Name, hs.Params, run.NPaths, run.Paths, run.Wall.Seconds(), map[bool]string{true: "  [TRUNCATED]", false: ""}[run.Truncated])
		}
	}

	br := <-bch
	if br.err != nil {
		fmt.Println("native replay build failed:", br.err)
		return 2
	}

	// ---- gather candidates and samples
	var cands []*Candidate
	var candClass []string
	for _, r := range runs {
		var ks []string
		for k := range r.Cands {
			ks = append(ks, k)
		}
		sort.Strings(ks)
		for _, k := range ks {
			for _, c := range r.Cands[k] {
				cands = append(cands, c)
				candClass = append(candClass, k)
			}
		}
	}
	nCand := len(cands)
	var samples []*Candidate
	for _, r := range runs {
		n := 0
		for _, s := range r.Samples {
			if n >= 12 && !r.SampleAll {
				break
			}
			samples = append(samples, s)
			n++
		}
	}
	// inputs of paths the engine could not follow ("unsupported"): native fallback
	var unsupp []*Candidate
	for _, r := range runs {
		unsupp = append(unsupp, r.UnsuppSamples...)
	}
	all := append(append([]*Candidate{}, cands...), samples...)
	all = append(all, unsupp...)
	results, err := replayBatch(br.bin, all, 3*time.Second)
	if err != nil {
		fmt.Println("native replay failed:", err)
		return 2
	}
	// shared-state findings are confirmed by running the harness natively with its
	// pipelines on concurrent goroutines under the race detector
	for i, c := range cands {
		if c.Kind == "race" {
			if raceReplay(c) {
				results[i].Status, results[i].Ran = "race", true
			}
		}
	}

	// ---- classify candidate classes
	type classInfo struct {
		confirmed *Candidate
		detail    string
		tried     int
	}
	classes := map[string]*classInfo{}
	var order []string
	for i, c := range cands {
		k := candClass[i]
		ci := classes[k]
		if ci == nil {
			ci = &classInfo{}
			classes[k] = ci
			order = append(order, k)
		}
		ci.tried++
		if ci.confirmed == nil && confirms(c, &results[i]) {
			ci.confirmed = c
			ci.detail = results[i].Status + " " + results[i].Detail
		}
	}
	violations := 0
	var knownMatched []string
	var unreproduced []string
	knownPrinted := map[string]bool{}
	var vioLines []string
	for _, k := range order {
		ci := classes[k]
		if ci.confirmed == nil {
			unreproduced = append(unreproduced, k)
			continue
		}
		c := ci.confirmed
		var kf *KnownFinding
		for i := range known.Findings {
			if known.Findings[i].matches(*prop, c) {
				kf = &known.Findings[i]
				break
			}
		}
		if kf != nil {
			if !knownPrinted[kf.ID] {
				knownPrinted[kf.ID] = true
				knownMatched = append(knownMatched, kf.ID)
				fmt.Printf("KNOWN-FINDING: property=%s %s: %s\n", *prop, kf.ID, kf.What)
			}
			continue
		}
		violations++
		p := writeReplay(*prop, c)
		vioLines = append(vioLines, fmt.Sprintf("VIOLATION property=%s replay=%s", *prop, p))
		fmt.Printf("  violated: %s %s [%s] tags=%v values: %s\n     native: %s\n", c.Harness, c.Kind, c.ID, c.Tags, fmtValues(c.Values), ci.detail)
	}

	// ---- trace validation: engine prediction vs native run on sampled path models
	validated, mismatches := 0, 0
	var mismatchNotes []string
	for i, s := range samples {
		r := &results[nCand+i]
		if !r.Ran {
			continue
		}
		bad := ""
		if r.Status != "ok" {
			bad = "native status " + r.Status + " " + r.Detail
		}
		for k, v := range s.Observed {
			if r.Obs[k] != v {
				bad = fmt.Sprintf("observation %s: engine %q native %q", k, v, r.Obs[k])
				break
			}
		}
		if bad == "" && len(r.Failed) > 0 {
			// the engine assumed these assertions hold on this path and the model is a
			// model of that path; a native failure is a genuine violation the engine missed
			bad = "native assertion failure " + strings.Join(r.Failed, ",")
			c := &Candidate{Harness: s.Harness, Params: s.Params, Kind: "assert", ID: r.Failed[0], Tags: s.Tags, Values: s.Values}
			isKnown := false
			for j := range known.Findings {
				if known.Findings[j].matches(*prop, c) {
					isKnown = true
				}
			}
			if !isKnown {
				violations++
				p := writeReplay(*prop, c)
				vioLines = append(vioLines, fmt.Sprintf("VIOLATION property=%s replay=%s", *prop, p))
			}
		}
		if bad == "" {
			validated++
		} else {
			mismatches++
			if len(mismatchNotes) < 5 {
				mismatchNotes = append(mismatchNotes, fmt.Sprintf("%s %s: %s", s.Harness, fmtValues(s.Values), bad))
			}
		}
	}
	// unsupported paths, natively: an assertion failure or a panic there is a violation
	unsuppRan, unsuppBad := 0, 0
	for i, u := range unsupp {
		r := &results[nCand+len(samples)+i]
		if !r.Ran {
			continue
		}
		unsuppRan++
		var c *Candidate
		switch {
		case len(r.Failed) > 0:
			c = &Candidate{Harness: u.Harness, Params: u.Params, Kind: "assert", ID: r.Failed[0], Tags: u.Tags, Values: u.Values, Msg: "found natively on a path the engine does not support: " + u.ID}
		case r.Status == "panic" || r.Status == "crash" || r.Status == "hang":
			c = &Candidate{Harness: u.Harness, Params: u.Params, Kind: map[string]string{"panic": "panic", "crash": "panic", "hang": "hang"}[r.Status], ID: "native:" + r.Status, Tags: u.Tags, Values: u.Values, Msg: r.Detail}
		}
		if c == nil {
			continue
		}
		isKnown := false
		for j := range known.Findings {
			if known.Findings[j].matches(*prop, c) {
				isKnown = true
			}
		}
		if !isKnown {
			unsuppBad++
			violations++
			p := writeReplay(*prop, c)
			vioLines = append(vioLines, fmt.Sprintf("VIOLATION property=%s replay=%s", *prop, p))
			fmt.Printf("  violated (native run of an engine-unsupported path): %s [%s] %s values: %s\n", c.Harness, c.ID, c.Msg, fmtValues(c.Values))
		}
	}
	if len(unsupp) > 0 {
		fmt.Printf("  %d engine-unsupported paths sampled natively, %d failed\n", unsuppRan, unsuppBad)
	}
	for _, n := range mismatchNotes {
		fmt.Println("  ENGINE-MISMATCH:", n)
	}
	for _, u := range unreproduced {
		fmt.Println("  UNREPRODUCED (engine counterexample not confirmed natively; not reported as violation):", u)
	}

	// ---- cross-solver self check on a sample of this run's queries
	xq, xdis := crossCheck(engines)
	if xdis > 0 {
		fmt.Printf("  SOLVER-DISAGREEMENT: %d of %d sampled queries answered differently by another solver\n", xdis, xq)
	}

	// ---- evidence
	ev := buildEvidence(*prop, *tier, seed, pc, runs, engines, samples, validated, mismatches, knownMatched, unreproduced, violations, time.Since(t0), loadT)
	ev.doc["coverage"].(map[string]interface{})["solver_crosscheck"] = map[string]int{"queries_replayed_through_z3_4.8.12_z3_5.1_cvc5": xq, "disagreements": xdis}
	if *only != "" {
		fmt.Println("  (-only: partial run, evidence file left untouched)")
	} else if err := writeEvidence(*prop, ev); err != nil {
		fmt.Println("cannot write evidence:", err)
		return 2
	}
	incomplete := false
	for _, r := range runs {
		if r.Truncated {
			incomplete = true
		}
	}
	fmt.Printf("[%s/%s] %d paths, %d violations, %d known findings, %d unreproduced, %d/%d traces validated, complete=%v, %.1fs\n",
		*prop, *tier, ev.totalPaths, violations, len(knownMatched), len(unreproduced), validated, validated+mismatches, !incomplete, time.Since(t0).Seconds())
	for _, l := range vioLines {
		fmt.Println(l)
	}
	if violations > 0 {
		return 1
	}
	return 0
}

func isFlagSet(fs *flag.FlagSet, name string) bool {
	set := false
	fs.Visit(func(f *flag.Flag) {
		if f.Name == name {
			set = true
		}
	})
	return set
}

func readJSON(p string, v interface{}) error {
	data, err := os.ReadFile(p)
	if err != nil {
		return err
	}
	return json.Unmarshal(data, v)
}

func writeReplay(prop string, c *Candidate) string {
	dir := filepath.Join(verifDir, "replays", prop)
	if altModDir != "" {
		dir = filepath.Join(os.TempDir(), "gosym-alt-replays", prop)
	}
	os.MkdirAll(dir, 0o755)
	data, _ := json.MarshalIndent(c, "", " ")
	sum := sha1.Sum(data)
	p := filepath.Join(dir, fmt.Sprintf("%s-%x.json", c.Harness, sum[:6]))
	os.WriteFile(p, data, 0o644)
	return p
}

type evidenceOut struct {
	doc        map[string]interface{}
	totalPaths int
}

func buildEvidence(prop, tier string, seed int64, pc PropCfg, runs []*HarnessRun, engines []*Engine, samples []*Candidate, validated, mismatches int,
	knownMatched, unreproduced []string, violations int, wall, loadT time.Duration) *evidenceOut {
	var qz, qt, qu, div, dmod, ifc int
	var tz, tt time.Duration
	funcs := map[string]bool{}
	stubs := map[string]bool{}
	for _, e := range engines {
		qz += e.z.QZ3
		qt += e.z.QText
		qu += e.z.QUnknown
		tz += e.z.TZ3 + e.z.TAssert
		tt += e.z.TText
		div += e.nDecideIv
		dmod += e.nDecideMod
		ifc += e.nIfConv
		for f := range e.funcsSeen {
			funcs[f] = true
		}
		for f := range e.stubsSeen {
			if !strings.Contains(f, "harness/rt") {
				stubs[f] = true
			}
		}
	}
	var fl, sl []string
	for f := range funcs {
		if !strings.Contains(f, "verif/harness") {
			fl = append(fl, f)
		}
	}
	for f := range stubs {
		sl = append(sl, f)
	}
	sort.Strings(fl)
	sort.Strings(sl)
	states, transitions := 0, int64(0)
	nontrivial := 0
	complete := true
	var hes []harnessEvidence
	for _, r := range runs {
		states += r.NPaths
		transitions += r.Transitions
		nontrivial += r.Paths["ok"] + r.Paths["stop"] + r.Paths["panic"] + r.Paths["budget"]
		if r.Truncated {
			complete = false
		}
		hes = append(hes, harnessEvidence{Name: r.Name, Params: r.Params, Paths: r.Paths, Complete: !r.Truncated, Uncertain: r.Uncertain, Asserts: r.Asserts,
			Unsupported: r.Unsupp, GlobalStores: r.GlobalSt, WallS: r.Wall.Seconds(), Steps: r.Steps})
	}
	var ss []interface{}
	for i, s := range samples {
		if i >= 10 {
			break
		}
		ss = append(ss, map[string]interface{}{"harness": s.Harness, "bounds": s.Params, "inputs": fmtValues(s.Values), "tags": s.Tags, "engine_predicted_observations": s.Observed})
	}
	if len(ss) == 0 {
		ss = append(ss, "no completed path produced a model")
	}
	level := pc.Level
	if level == "" {
		level = "model_checking"
	}
	cov := map[string]interface{}{
		"states":                        max(states, 1),
		"transitions":                   max(int(transitions), 1),
		"traces_validated_against_impl": validated,
		"trace_mismatches":              mismatches,
		"samples":                       ss,
		"evaluations":                   max(states, 1),
		"distinct_nontrivial":           nontrivial,
		"rule":                          "one evaluation = one symbolic path (a distinct sequence of branch decisions through harness + library code); non-trivial = the path ran to an end state (completed, assertion stop, panic or budget) rather than being cut by an assumption; every path stands for all input values satisfying its path condition",
		"exhaustive":                    complete,
		"explanation":                   "bounded symbolic execution of the Go SSA of /repo's working tree; every assertion is decided by an SMT query over all values inside the stated bounds",
		"harnesses":                     hes,
		"functions_encoded":             fl,
		"stubs":                         sl,
		"queries":                       map[string]int{"z3_api": qz, "text_backends": qt, "unknown": qu, "branch_conditions_decided_by_folding_or_intervals": div, "branch_sides_decided_by_cached_model": dmod, "if_conversions": ifc},
		"solver_s":                      (tz + tt).Seconds(),
		"ssa_build_s":                   loadT.Seconds(),
		"known_findings_matched":        knownMatched,
		"unreproduced_counterexamples":  unreproduced,
		"outside_claim":                 pc.Outside,
	}
	doc := map[string]interface{}{
		"property_id": prop,
		"tier":        tier,
		"seed":        seed,
		"level":       level,
		"coverage":    cov,
		"assumptions": append([]string{"GOARCH=amd64 (64-bit int/uintptr)", "append growth as in Go 1.23 runtime.growslice", "native replay binary built from the same /repo working tree"}, pc.Assume...),
		"wall_s":      wall.Seconds(),
		"violations":  violations,
	}
	return &evidenceOut{doc: doc, totalPaths: states}
}

func writeEvidence(prop string, ev *evidenceOut) error {
	dir := filepath.Join(verifDir, "evidence")
	if altModDir != "" {
		dir = filepath.Join(altModDir, "evidence") // runs against a scratch copy leave no evidence
	}
	os.MkdirAll(dir, 0o755)
	data, err := json.MarshalIndent(ev.doc, "", " ")
	if err != nil {
		return err
	}
	return os.WriteFile(filepath.Join(dir, prop+".json"), data, 0o644)
}

// cmdReplay replays one replay file natively and reports the outcome.
func cmdReplay(args []string) int {
	if len(args) < 1 {
		fmt.Println("usage: gosym replay <file>")
		return 2
	}
	bin, err := buildReplay()
	if err != nil {
		fmt.Println(err)
		return 2
	}
	var c Candidate
	if err := readJSON(args[0], &c); err != nil {
		fmt.Println(err)
		return 2
	}
	res, err := replayBatch(bin, []*Candidate{&c}, 5*time.Second)
	if err != nil {
		fmt.Println(err)
		return 2
	}
	r := res[0]
	fmt.Printf("harness=%s kind=%s id=%s\n  inputs: %s\n  native: status=%s failed=%v %s\n", c.Harness, c.Kind, c.ID, fmtValues(c.Values), r.Status, r.Failed, r.Detail)
	if confirms(&c, &r) {
		fmt.Println("REPRODUCED")
		return 1
	}
	fmt.Println("not reproduced")
	return 0
}

var raceBin string

// raceReplay builds (once) a race-enabled replay binary and runs one candidate.
func raceReplay(c *Candidate) bool {
	if raceBin == "" {
		dir := filepath.Join(verifDir, "bin")
		if altModDir != "" {
			dir = altModDir
		}
		bin := filepath.Join(dir, "replay-race")
		out, err := runCmd(verifDir, goEnvList(), "go", "build", "-race", "-o", bin, "./harness/cmd/replay")
		if err != nil {
			fmt.Println("race replay build failed:", err, out)
			return false
		}
		raceBin = bin
	}
	dir, err := os.MkdirTemp("", "gosym-race-")
	if err != nil {
		return false
	}
	defer os.RemoveAll(dir)
	file := filepath.Join(dir, "c.json")
	data, _ := json.Marshal([]*Candidate{c})
	os.WriteFile(file, data, 0o644)
	cmd := exec.Command(raceBin, "-deadline", "20s", file)
	cmd.Env = append(os.Environ(), "GORACE=halt_on_error=1 exitcode=66")
	out, _ := cmd.CombinedOutput()
	return strings.Contains(string(out), "DATA RACE")
}

// crossCheck replays a sample of the run's solver queries (in-process Z3 queries
// rendered as SMT-LIB2, and every query answered by a text back end) through the
// other installed solvers. A definite answer that differs is a disagreement.
func crossCheck(engines []*Engine) (queries, disagreements int) {
	var qs []textQuery
	for _, e := range engines {
		qs = append(qs, e.z.Z3Log...)
		for i, q := range e.z.TextLog {
			if i < 2 {
				qs = append(qs, q)
			}
		}
	}
	if len(qs) > 36 {
		qs = qs[:36]
	}
	solvers := []textSolver{{"z3", []string{"z3", "-in"}}, {"z3-new", []string{"z3-new", "-in"}}, {"cvc5", []string{"cvc5", "--lang=smt2", "--produce-models"}}}
	type job struct{ q textQuery }
	results := make(chan int, len(qs))
	for _, q := range qs {
		go func(q textQuery) {
			bad := 0
			for _, s := range solvers {
				r, _ := runTextSolver(s, q.Text, 5000)
				if r != Unknown && r != q.Result {
					bad = 1
				}
			}
			results <- bad
		}(q)
	}
	for range qs {
		disagreements += <-results
	}
	return len(qs), disagreements
}
