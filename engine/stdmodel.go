package main

import (
	"fmt"
	"go/types"
	"strings"

	"golang.org/x/tools/go/ssa"
)

// Models of standard-library functions that have no Go body (assembly, runtime
// hooks) or whose body depends on machinery the engine does not execute
// (reflectlite, per-P pools). Each model is exact on the values it returns; where a
// model gives up it ends the path as "unsupported" (never a made-up value).

func init() {
	for k, v := range map[string]intrinsicFn{
		"internal/bytealg.IndexByte":       func(e *Engine, fn *ssa.Function, a []Val) Val { return e.idxByte(a[0].(Slice), a[1].(*Term)) },
		"internal/bytealg.IndexByteString": func(e *Engine, fn *ssa.Function, a []Val) Val { return e.idxByte(a[0].(Slice), a[1].(*Term)) },
		"internal/bytealg.Count":           func(e *Engine, fn *ssa.Function, a []Val) Val { return e.countByte(a[0].(Slice), a[1].(*Term)) },
		"internal/bytealg.CountString":     func(e *Engine, fn *ssa.Function, a []Val) Val { return e.countByte(a[0].(Slice), a[1].(*Term)) },
		"internal/bytealg.Equal": func(e *Engine, fn *ssa.Function, a []Val) Val {
			return e.bytesEqual(a[0].(Slice), a[1].(Slice))
		},
		"internal/bytealg.Compare": func(e *Engine, fn *ssa.Function, a []Val) Val {
			return e.bytesCompare(a[0].(Slice), a[1].(Slice))
		},
		"internal/bytealg.Index":       func(e *Engine, fn *ssa.Function, a []Val) Val { return e.idxSub(a[0].(Slice), a[1].(Slice)) },
		"internal/bytealg.IndexString": func(e *Engine, fn *ssa.Function, a []Val) Val { return e.idxSub(a[0].(Slice), a[1].(Slice)) },
		"internal/bytealg.MakeNoZero": func(e *Engine, fn *ssa.Function, a []Val) Val {
			n := e.concretize(e.tf.Resize(a[0].(*Term), 64, true), "bytealg.MakeNoZero length")
			e.allocGuard(e.K(64, uint64(n)), 1)
			arr := e.newArray(types.Typ[types.Uint8], n)
			return Slice{arr: arr, len: n, cap: n}
		},
		"internal/stringslite.Index": func(e *Engine, fn *ssa.Function, a []Val) Val { return e.idxSub(a[0].(Slice), a[1].(Slice)) },
		"internal/stringslite.IndexByte": func(e *Engine, fn *ssa.Function, a []Val) Val {
			return e.idxByte(a[0].(Slice), a[1].(*Term))
		},
		"internal/abi.NoEscape": func(e *Engine, fn *ssa.Function, a []Val) Val { return a[0] },
		"internal/abi.Escape":   func(e *Engine, fn *ssa.Function, a []Val) Val { return a[0] },
		"internal/race.Enabled": nil,
		"(*sync.Pool).Get":      poolGet,
		"(*sync.Pool).Put":      poolPut,
		"errors.Is":             errorsIs,
		"errors.As":             errorsAs,
		"errors.Unwrap":         func(e *Engine, fn *ssa.Function, a []Val) Val { return e.unwrapOne(a[0].(Iface)) },
		"fmt.Errorf":            fmtErrorf,
		"fmt.Sprintf":           fmtSprintf,
		"fmt.Sprint":            func(e *Engine, fn *ssa.Function, a []Val) Val { return e.fmtConcrete("Sprint", "", a[0].(Slice)) },
		"strings.ToUpper":       func(e *Engine, fn *ssa.Function, a []Val) Val { return e.mapASCII(fn, a, strings.ToUpper) },
		"strings.ToLower":       func(e *Engine, fn *ssa.Function, a []Val) Val { return e.mapASCII(fn, a, strings.ToLower) },
		"math.Trunc":            func(e *Engine, fn *ssa.Function, a []Val) Val { return e.tf.FRnd(a[0].(*Term), 0) },
		"math.Floor":            func(e *Engine, fn *ssa.Function, a []Val) Val { return e.tf.FRnd(a[0].(*Term), 1) },
		"math.Ceil":             func(e *Engine, fn *ssa.Function, a []Val) Val { return e.tf.FRnd(a[0].(*Term), 2) },
		"math.Round":            func(e *Engine, fn *ssa.Function, a []Val) Val { return e.tf.FRnd(a[0].(*Term), 3) },
		"math.RoundToEven":      func(e *Engine, fn *ssa.Function, a []Val) Val { return e.tf.FRnd(a[0].(*Term), 4) },
		"math.Sqrt":             func(e *Engine, fn *ssa.Function, a []Val) Val { return e.tf.FSqrt(a[0].(*Term)) },
		"math.Abs": func(e *Engine, fn *ssa.Function, a []Val) Val {
			return e.tf.Bin(OAnd, a[0].(*Term), e.K(64, 1<<63-1))
		},
		"(*sync.WaitGroup).Add":  func(e *Engine, fn *ssa.Function, a []Val) Val { return nil },
		"(*sync.WaitGroup).Done": func(e *Engine, fn *ssa.Function, a []Val) Val { return nil },
		"(*sync.WaitGroup).Wait": func(e *Engine, fn *ssa.Function, a []Val) Val { return nil },
	} {
		if v != nil {
			intrinsics[k] = v
		}
	}
}

// mapASCII: concrete strings are mapped natively, anything else runs the real body.
func (e *Engine) mapASCII(fn *ssa.Function, a []Val, f func(string) string) Val {
	if s, ok := e.tryGoString(a[0]); ok {
		return e.stringVal(f(s))
	}
	return e.callBody(fn, a, nil)
}

func (e *Engine) byteAt(s Slice, i int) *Term { return e.load(s.arr.kids[s.off+i]).(*Term) }

// idxByte: index of the first byte equal to c, or -1 (ite chain from the back).
func (e *Engine) idxByte(s Slice, c *Term) Val {
	r := e.K(64, ^uint64(0))
	for i := s.len - 1; i >= 0; i-- {
		r = e.tf.Ite(e.tf.Eq(e.byteAt(s, i), c), e.K(64, uint64(i)), r)
	}
	return r
}

func (e *Engine) countByte(s Slice, c *Term) Val {
	r := e.K(64, 0)
	for i := 0; i < s.len; i++ {
		r = e.tf.Bin(OAdd, r, e.tf.Ite(e.tf.Eq(e.byteAt(s, i), c), e.K(64, 1), e.K(64, 0)))
	}
	return r
}

func (e *Engine) bytesEqual(x, y Slice) Val {
	if x.len != y.len {
		return e.KB(false)
	}
	r := e.KB(true)
	for i := 0; i < x.len; i++ {
		r = e.tf.And(r, e.tf.Eq(e.byteAt(x, i), e.byteAt(y, i)))
	}
	return r
}

// bytesCompare: -1, 0, +1 lexicographically.
func (e *Engine) bytesCompare(x, y Slice) Val {
	n := x.len
	if y.len < n {
		n = y.len
	}
	var r *Term
	switch {
	case x.len < y.len:
		r = e.K(64, ^uint64(0))
	case x.len > y.len:
		r = e.K(64, 1)
	default:
		r = e.K(64, 0)
	}
	for i := n - 1; i >= 0; i-- {
		a, b := e.byteAt(x, i), e.byteAt(y, i)
		r = e.tf.Ite(e.tf.Bin(OUlt, a, b), e.K(64, ^uint64(0)), e.tf.Ite(e.tf.Bin(OUlt, b, a), e.K(64, 1), r))
	}
	return r
}

// idxSub: index of the first occurrence of sub in s, or -1.
func (e *Engine) idxSub(s, sub Slice) Val {
	if sub.len == 0 {
		return e.K(64, 0)
	}
	r := e.K(64, ^uint64(0))
	for i := s.len - sub.len; i >= 0; i-- {
		m := e.KB(true)
		for j := 0; j < sub.len; j++ {
			m = e.tf.And(m, e.tf.Eq(e.byteAt(s, i+j), e.byteAt(sub, j)))
		}
		r = e.tf.Ite(m, e.K(64, uint64(i)), r)
	}
	return r
}

// ---- sync.Pool: Get hands back the most recently Put item or a New one - both are
// explored (a pool may drop what it holds at any time, so both are real behaviours).

func poolCell(e *Engine, a Val) *Cell { return e.resolve(a.(Ptr), "sync.Pool") }

func poolGet(e *Engine, fn *ssa.Function, a []Val) Val {
	c := poolCell(e, a[0])
	if items := e.pools[c]; len(items) > 0 {
		if e.chooseInt(0, 1) == 1 {
			it := items[len(items)-1]
			e.pools[c] = items[:len(items)-1]
			return it
		}
	}
	// field New
	st := c.typ.Underlying().(*types.Struct)
	for i := 0; i < st.NumFields(); i++ {
		if st.Field(i).Name() == "New" {
			f := e.load(c.kids[i])
			if f == nil {
				return Iface{}
			}
			if cl, ok := f.(Closure); ok && cl.fn == nil {
				return Iface{}
			}
			if p, ok := f.(Ptr); ok && p.c == nil {
				return Iface{}
			}
			return e.callValue(f, nil)
		}
	}
	return Iface{}
}

func poolPut(e *Engine, fn *ssa.Function, a []Val) Val {
	if in, ok := a[1].(Iface); ok && in.typ == nil {
		return nil
	}
	c := poolCell(e, a[0])
	if e.pools == nil {
		e.pools = map[*Cell][]Val{}
	}
	e.pools[c] = append(e.pools[c], a[1])
	return nil
}

// ---- errors: wrapped errors are modelled by *wrapErr cells created by fmt.Errorf.

// unwrapOne returns the error wrapped by err (nil interface if none).
func (e *Engine) unwrapOne(err Iface) Iface {
	if err.typ == nil {
		return Iface{}
	}
	if w, ok := e.wraps[cellOf(err)]; ok {
		return w
	}
	// a user type with Unwrap() error
	ms := e.prog.MethodSets.MethodSet(err.typ)
	for i := 0; i < ms.Len(); i++ {
		sel := ms.At(i)
		if sel.Obj().Name() != "Unwrap" {
			continue
		}
		sig := sel.Type().(*types.Signature)
		if sig.Params().Len() != 0 || sig.Results().Len() != 1 {
			continue
		}
		if _, isSlice := sig.Results().At(0).Type().Underlying().(*types.Slice); isSlice {
			e.unsupported("errors: Unwrap() []error")
		}
		if f := e.prog.MethodValue(sel); f != nil {
			r, _ := e.call(f, []Val{err.v}, nil).(Iface)
			return r
		}
	}
	return Iface{}
}

func cellOf(i Iface) *Cell {
	if p, ok := i.v.(Ptr); ok {
		return p.c
	}
	return nil
}

func errorsIs(e *Engine, fn *ssa.Function, a []Val) Val {
	err, target := a[0].(Iface), a[1].(Iface)
	if err.typ == nil || target.typ == nil {
		return e.KB(err.typ == nil && target.typ == nil)
	}
	for depth := 0; err.typ != nil && depth < 32; depth++ {
		if types.Comparable(target.typ) {
			t := e.valEq(err, target)
			if !t.IsConst() {
				e.unsupported("errors.Is on symbolic error values")
			}
			if t.C == 1 {
				return e.KB(true)
			}
		}
		if m := e.methodNamed(err.typ, "Is"); m != nil {
			if r, ok := e.call(m, []Val{err.v, target}, nil).(*Term); ok && r.IsConst() && r.C == 1 {
				return e.KB(true)
			}
		}
		err = e.unwrapOne(err)
	}
	return e.KB(false)
}

func (e *Engine) methodNamed(t types.Type, name string) *ssa.Function {
	ms := e.prog.MethodSets.MethodSet(t)
	for i := 0; i < ms.Len(); i++ {
		if ms.At(i).Obj().Name() == name {
			return e.prog.MethodValue(ms.At(i))
		}
	}
	return nil
}

func errorsAs(e *Engine, fn *ssa.Function, a []Val) Val {
	err, target := a[0].(Iface), a[1].(Iface)
	if target.typ == nil {
		e.goPanic("errors: target cannot be nil")
	}
	pt, ok := target.typ.Underlying().(*types.Pointer)
	tp, isPtr := target.v.(Ptr)
	if !ok || !isPtr || tp.c == nil {
		e.goPanic("errors: target must be a non-nil pointer")
	}
	want := pt.Elem()
	_, wantIface := want.Underlying().(*types.Interface)
	for depth := 0; err.typ != nil && depth < 32; depth++ {
		if wantIface {
			if types.Implements(err.typ, want.Underlying().(*types.Interface)) {
				e.storePtr(tp, err)
				return e.KB(true)
			}
		} else if types.Identical(err.typ, want) {
			e.storePtr(tp, err.v)
			return e.KB(true)
		}
		if m := e.methodNamed(err.typ, "As"); m != nil {
			if r, ok := e.call(m, []Val{err.v, target}, nil).(*Term); ok && r.IsConst() && r.C == 1 {
				return e.KB(true)
			}
		}
		err = e.unwrapOne(err)
	}
	return e.KB(false)
}

// fmtErrorf: a fresh error; with exactly one %w verb in a concrete format it wraps
// the corresponding operand (errors.Is/As/Unwrap see it). The text is not modelled.
func fmtErrorf(e *Engine, fn *ssa.Function, a []Val) Val {
	res := e.opaqueError("fmt.Errorf").(Iface)
	format, ok := e.tryGoString(a[0])
	if !ok {
		return res
	}
	args := a[1].(Slice)
	argi := 0
	for i := 0; i < len(format); i++ {
		if format[i] != '%' {
			continue
		}
		i++
		for i < len(format) && strings.IndexByte("+-# 0123456789.", format[i]) >= 0 {
			i++
		}
		if i >= len(format) {
			break
		}
		if format[i] == '%' {
			continue
		}
		if format[i] == 'w' && argi < args.len {
			if w, isIface := e.load(args.arr.kids[args.off+argi]).(Iface); isIface {
				if e.wraps == nil {
					e.wraps = map[*Cell]Iface{}
				}
				e.wraps[cellOf(res)] = w
			}
		}
		argi++
	}
	return res
}

// fmtConcrete: Sprintf/Sprint on concrete basic operands is computed natively; any
// symbolic or structured operand ends the path as unsupported (no made-up text).
func (e *Engine) fmtConcrete(what, format string, args Slice) Val {
	goArgs := make([]interface{}, args.len)
	for i := range goArgs {
		in, ok := e.load(args.arr.kids[args.off+i]).(Iface)
		if !ok {
			e.unsupported("fmt.%s operand", what)
		}
		goArgs[i] = e.goValue(in, what)
	}
	if what == "Sprint" {
		return e.stringVal(fmt.Sprint(goArgs...))
	}
	return e.stringVal(fmt.Sprintf(format, goArgs...))
}

func fmtSprintf(e *Engine, fn *ssa.Function, a []Val) Val {
	format, ok := e.tryGoString(a[0])
	if !ok {
		e.unsupported("fmt.Sprintf with a symbolic format")
	}
	return e.fmtConcrete("Sprintf", format, a[1].(Slice))
}

func (e *Engine) goValue(in Iface, what string) interface{} {
	if in.typ == nil {
		return nil
	}
	b, ok := in.typ.Underlying().(*types.Basic)
	if !ok {
		if s, isSlice := in.v.(Slice); isSlice {
			if str, ok := e.tryGoString(s); ok {
				return []byte(str)
			}
		}
		e.unsupported("fmt.%s operand of type %v", what, in.typ)
	}
	if b.Info()&types.IsString != 0 {
		s, ok := e.tryGoString(in.v)
		if !ok {
			e.unsupported("fmt.%s on a symbolic string", what)
		}
		return s
	}
	t, ok := in.v.(*Term)
	if !ok || !t.IsConst() {
		e.unsupported("fmt.%s on a symbolic %v", what, in.typ)
	}
	switch b.Kind() {
	case types.Bool:
		return t.C == 1
	case types.Int8:
		return int8(t.C)
	case types.Int16:
		return int16(t.C)
	case types.Int32:
		return int32(t.C)
	case types.Int64:
		return int64(t.C)
	case types.Int:
		return int(t.C)
	case types.Uint8:
		return uint8(t.C)
	case types.Uint16:
		return uint16(t.C)
	case types.Uint32:
		return uint32(t.C)
	case types.Uint64:
		return t.C
	case types.Uint:
		return uint(t.C)
	case types.Uintptr:
		return uintptr(t.C)
	}
	e.unsupported("fmt.%s operand of type %v", what, in.typ)
	return nil
}
