package main

import (
	"fmt"
	"go/types"

	"golang.org/x/tools/go/ssa"
)

// ---------------------------------------------------------------- values

type Val interface{}

// Cell is one typed memory location; aggregates (struct, array) are trees of cells.
type Cell struct {
	typ   types.Type
	kids  []*Cell
	val   Val
	ro    bool   // string-backed (immutable)
	epoch uint32 // 0: created during package initialisation; else path serial
	up    *Cell  // enclosing array cell (array elements only)
	upIdx int32
	seq   uint32 // creation order within the path (for the shared-state monitor)
}

// Ptr designates a cell. With idx != nil it designates c.kids[idx] where
// lo <= idx < lo+n is already part of the path condition (symbolic index).
type Ptr struct {
	c   *Cell
	idx *Term
	lo  int
	n   int
	off int64 // pending byte offset (uintptr arithmetic with provenance)
	raw bool  // value currently has integer type (uintptr) but carries provenance
}

type Slice struct {
	arr           *Cell // array cell; nil for nil slice / empty string
	off, len, cap int
	str           bool
}

type Iface struct {
	typ types.Type // nil => nil interface
	v   Val
}

type Agg struct{ f []Val } // struct or array value
type Tuple []Val
type Closure struct {
	fn   *ssa.Function
	bind []Val
}

type MapObj struct {
	keys  []Val
	vals  []Val
	epoch uint32
	kt    types.Type
	vt    types.Type // element type the map was made with (nil: unknown)
}

type MapIter struct {
	m    *MapObj
	keys []Val // snapshot in iteration order
	vals []Val
	pos  int
	str  *Slice
}

type pathEnd struct {
	kind string // "panic", "unsupported", "budget", "infeasible", "assume", "stop"
	msg  string
	val  Val // explicit panic(v): the value (for recover)
}

func (p pathEnd) String() string { return p.kind + ": " + p.msg }

func describe(v Val) string {
	switch x := v.(type) {
	case Iface:
		if x.typ != nil {
			return x.typ.String()
		}
		return "nil"
	case *Term:
		return x.String()
	}
	return fmt.Sprintf("%T", v)
}

func intWidth(t types.Type) (w int, signed bool, ok bool) {
	b, isB := t.Underlying().(*types.Basic)
	if !isB {
		return 0, false, false
	}
	switch b.Kind() {
	case types.Bool, types.UntypedBool:
		return 0, false, true
	case types.Int8:
		return 8, true, true
	case types.Int16:
		return 16, true, true
	case types.Int32, types.UntypedRune:
		return 32, true, true
	case types.Int64, types.Int, types.UntypedInt:
		return 64, true, true
	case types.Uint8:
		return 8, false, true
	case types.Uint16:
		return 16, false, true
	case types.Uint32:
		return 32, false, true
	case types.Uint64, types.Uint, types.Uintptr:
		return 64, false, true
	case types.Float32:
		return 32, false, true // bits
	case types.Float64, types.UntypedFloat:
		return 64, false, true // bits
	}
	return 0, false, false
}

func isFloat(t types.Type) bool {
	b, ok := t.Underlying().(*types.Basic)
	return ok && b.Info()&types.IsFloat != 0
}

func isString(t types.Type) bool {
	b, ok := t.Underlying().(*types.Basic)
	return ok && b.Info()&types.IsString != 0
}

func isAggType(t types.Type) bool {
	if isReflectValue(t) {
		return false
	}
	switch t.Underlying().(type) {
	case *types.Struct, *types.Array:
		return true
	}
	return false
}

func isReflectValue(t types.Type) bool {
	n, ok := t.(*types.Named)
	return ok && n.Obj().Pkg() != nil && (n.Obj().Pkg().Path() == "reflect" || n.Obj().Pkg().Path() == "internal/reflectlite") && n.Obj().Name() == "Value"
}

// NativeFn is a function value implemented by the engine (reflect.Swapper).
type NativeFn func(e *Engine, args []Val) Val

func fieldVars(st *types.Struct) []*types.Var {
	v := make([]*types.Var, st.NumFields())
	for i := range v {
		v[i] = st.Field(i)
	}
	return v
}
