package main

import (
	"flag"
	"fmt"
	"os"
	"runtime"
	"runtime/pprof"
	"sort"
	"strconv"
	"strings"
	"time"

	"golang.org/x/tools/go/packages"
	"golang.org/x/tools/go/ssa"
	"golang.org/x/tools/go/ssa/ssautil"
)

// verifDir: /verif, or the checkout the check script lives in (background runs from a
// snapshot must not write into /verif)
var verifDir = func() string {
	if d := os.Getenv("VERIF_DIR"); d != "" {
		return d
	}
	return "/verif"
}()

// altRepoFlags: with VERIF_REPO=<dir> the library is taken from <dir> instead of /repo
// (used to run the checks against a scratch worktree with a seeded change, without
// touching /repo): an alternative go.mod with the replace directive rewritten.
var altModDir string

func goFlags() string {
	alt := os.Getenv("VERIF_REPO")
	if alt == "" || alt == "/repo" {
		return "-mod=mod"
	}
	if altModDir == "" {
		dir, err := os.MkdirTemp("", "gosym-mod-")
		if err != nil {
			panic(err)
		}
		mod, _ := os.ReadFile(verifDir + "/go.mod")
		sum, _ := os.ReadFile(verifDir + "/go.sum")
		os.WriteFile(dir+"/go.mod", []byte(strings.Replace(string(mod), "=> /repo", "=> "+alt, 1)), 0o644)
		os.WriteFile(dir+"/go.sum", sum, 0o644)
		altModDir = dir
	}
	return "-mod=mod -modfile=" + altModDir + "/go.mod"
}

func loadProgram() (*Program, time.Duration) {
	t0 := time.Now()
	os.Setenv("GOFLAGS", goFlags())
	os.Setenv("GOPROXY", "off")
	os.Setenv("GOSUMDB", "off")
	os.Setenv("GOTOOLCHAIN", "local")
	cfg := &packages.Config{Mode: packages.LoadAllSyntax, Dir: verifDir}
	pkgs, err := packages.Load(cfg, "./harness/props/...")
	if err != nil {
		fmt.Fprintln(os.Stderr, "load:", err)
		os.Exit(2)
	}
	if packages.PrintErrors(pkgs) > 0 {
		os.Exit(2)
	}
	prog, spkgs := ssautil.AllPackages(pkgs, ssa.InstantiateGenerics)
	prog.Build()
	pg := &Program{prog: prog}
	for _, p := range spkgs {
		if p != nil {
			pg.hpkgs = append(pg.hpkgs, p)
			pg.init = append(pg.init, p.Func("init"))
		}
	}
	initReflectMarker(prog)
	return pg, time.Since(t0)
}

func makeEngines(pg *Program, n int, timeoutMS int) []*Engine {
	engines := make([]*Engine, n)
	done := make(chan int, n)
	for i := range engines {
		go func(i int) {
			engines[i] = newEngine(pg, timeoutMS)
			done <- i
		}(i)
	}
	for range engines {
		<-done
	}
	return engines
}

func parseParams(s string) map[string]int {
	out := map[string]int{}
	for _, kv := range strings.Split(s, ",") {
		if kv == "" {
			continue
		}
		p := strings.SplitN(kv, "=", 2)
		v, _ := strconv.Atoi(p[1])
		out[p[0]] = v
	}
	return out
}

func cmdRun(args []string) {
	fs := flag.NewFlagSet("run", flag.ExitOnError)
	name := fs.String("h", "", "harness function")
	params := fs.String("p", "", "params k=v,k=v")
	steps := fs.Int("steps", 200000, "instruction budget per path")
	maxPaths := fs.Int("max", 0, "max paths")
	workers := fs.Int("j", runtime.NumCPU(), "workers")
	capS := fs.Int("cap", 86400, "wall-clock cap for the exploration in seconds")
	timeout := fs.Int("timeout", 10000, "solver timeout ms")
	verbose := fs.Bool("v", false, "print candidates")
	prof := fs.String("cpuprofile", "", "write cpu profile")
	vals := fs.String("vals", "", "concrete mode: name=hex,name=hex")
	trace := fs.Bool("trace", false, "trace calls")
	fs.Parse(args)
	if *prof != "" {
		f, _ := os.Create(*prof)
		pprof.StartCPUProfile(f)
		defer pprof.StopCPUProfile()
	}
	pg, lt := loadProgram()
	fmt.Printf("loaded+built SSA in %v\n", lt)
	fn := pg.harness(*name)
	if fn == nil {
		fmt.Println("no harness", *name)
		os.Exit(2)
	}
	t0 := time.Now()
	engines := makeEngines(pg, *workers, *timeout)
	fmt.Printf("%d engines initialised in %v\n", len(engines), time.Since(t0))
	run := &HarnessRun{HarnessSpec: HarnessSpec{Name: *name, Params: parseParams(*params), MaxSteps: *steps, MaxPaths: *maxPaths}, fn: fn}
	if *vals != "" {
		run.Fixed = map[string]uint64{}
		for _, kv := range strings.Split(*vals, ",") {
			p := strings.SplitN(kv, "=", 2)
			v, _ := strconv.ParseUint(p[1], 16, 64)
			run.Fixed[p[0]] = v
		}
	}
	run.Trace = *trace
	explore(pg, run, engines, 1, time.Now().Add(time.Duration(*capS)*time.Second))
	printRun(run, engines, *verbose)
}

func printRun(run *HarnessRun, engines []*Engine, verbose bool) {
	var qz, qt, qu, div, dmod int
	var tz, tt time.Duration
	funcs := map[string]bool{}
	for _, e := range engines {
		qz += e.z.QZ3
		qt += e.z.QText
		qu += e.z.QUnknown
		tz += e.z.TZ3
		tt += e.z.TText
		div += e.nDecideIv
		dmod += e.nDecideMod
		for f := range e.funcsSeen {
			funcs[f] = true
		}
	}
	var na int
	var tmk, tas time.Duration
	for _, e := range engines {
		na += e.z.NAssert
		tmk += e.z.TMk
		tas += e.z.TAssert
	}
	fmt.Printf("  asserts=%d mk=%v assert=%v\n", na, tmk, tas)
	fmt.Printf("harness %s %v: %d paths in %v (%.3f ms/path wall), truncated=%v uncertain=%d\n", run.Name, run.Params, run.NPaths, run.Wall,
		float64(run.Wall.Microseconds())/1000/float64(max(run.NPaths, 1)), run.Truncated, run.Uncertain)
	fmt.Printf("  queries: z3=%d (%v) text=%d (%v) unknown=%d; decided by folding/intervals=%d, model reuse=%d; steps=%d; functions encoded=%d\n",
		qz, tz, qt, tt, qu, div, dmod, run.Steps, len(funcs))
	var ks []string
	for k := range run.Paths {
		ks = append(ks, k)
	}
	sort.Strings(ks)
	for _, k := range ks {
		fmt.Printf("  %8d  %s\n", run.Paths[k], k)
	}
	for id, a := range run.Asserts {
		fmt.Printf("  assert %-24s reached=%d trivial=%d proved=%d violated=%d inconclusive=%d\n", id, a.Reached, a.Trivial, a.Proved, a.Violated, a.Inconclusive)
	}
	for m, n := range run.Unsupp {
		fmt.Printf("  unsupported x%d: %s\n", n, m)
	}
	for w, n := range run.GlobalSt {
		fmt.Printf("  global store x%d: %s\n", n, w)
	}
	var cs []string
	for k := range run.CandCount {
		cs = append(cs, k)
	}
	sort.Strings(cs)
	for _, k := range cs {
		fmt.Printf("  candidate class x%d: %s\n", run.CandCount[k], k)
		if verbose {
			for _, c := range run.Cands[k] {
				fmt.Printf("      %s  %s\n", fmtValues(c.Values), c.Msg)
			}
		}
	}
	if verbose {
		for i, s := range run.Samples {
			if i >= 5 {
				break
			}
			fmt.Printf("  sample: %s tags=%v obs=%v\n", fmtValues(s.Values), s.Tags, s.Observed)
		}
	}
}

func fmtValues(m map[string]uint64) string {
	var ks []string
	for k := range m {
		ks = append(ks, k)
	}
	sort.Slice(ks, func(i, j int) bool { return natLess(ks[i], ks[j]) })
	var sb strings.Builder
	for _, k := range ks {
		fmt.Fprintf(&sb, "%s=%x ", k, m[k])
	}
	return sb.String()
}

func natLess(a, b string) bool {
	// order name_2 before name_10
	ia, ib := strings.LastIndexByte(a, '_'), strings.LastIndexByte(b, '_')
	if ia > 0 && ib > 0 && a[:ia] == b[:ib] {
		x, e1 := strconv.Atoi(a[ia+1:])
		y, e2 := strconv.Atoi(b[ib+1:])
		if e1 == nil && e2 == nil {
			return x < y
		}
	}
	return a < b
}

func main() {
	if len(os.Args) < 2 {
		fmt.Println("usage: gosym run|check|replay|selftest ...")
		os.Exit(2)
	}
	switch os.Args[1] {
	case "run":
		cmdRun(os.Args[2:])
	case "check":
		os.Exit(cmdCheck(os.Args[2:]))
	case "replay":
		os.Exit(cmdReplay(os.Args[2:]))
	default:
		fmt.Println("unknown command", os.Args[1])
		os.Exit(2)
	}
}
