package main

// Intrinsics: the harness API (verif/harness/rt), stubs of the trusted
// environment, and dispatch into the reflect model.

import (
	"fmt"
	"go/types"
	"strings"
	"unicode"

	"golang.org/x/tools/go/ssa"
)

const rtPkg = "verif/harness/rt"

func lookupIntrinsic(name string, fn *ssa.Function) intrinsicFn {
	if f, ok := intrinsics[name]; ok {
		return f
	}
	if f := reflectIntrinsicFor(name); f != nil {
		return f
	}
	if fn.Name() == "init" && fn.Pkg != nil && fn.Signature.Recv() == nil && fn.Parent() == nil {
		if !initAllowed(fn.Pkg.Pkg.Path()) {
			return func(e *Engine, fn *ssa.Function, a []Val) Val { return nil }
		}
	}
	return nil
}

// Package initialisers that are executed (concretely, best effort) before a harness.
func initAllowed(p string) bool {
	if strings.HasPrefix(p, "github.com/elastic/go-structform") || strings.HasPrefix(p, "verif/") {
		return true
	}
	switch p {
	case "unicode/utf8", "unicode/utf16", "io", "errors", "strconv", "encoding/binary", "bytes", "math", "math/bits", "unicode", "strings":
		return true
	}
	return false
}

func (e *Engine) opaqueError(msg string) Val {
	// an error value whose identity is fresh and whose text is not modelled
	t := e.opaqueErrType()
	c := e.newCell(t.Elem())
	if len(c.kids) > 0 {
		c.kids[0].val = e.stringVal(msg)
	}
	return Iface{typ: t, v: Ptr{c: c}}
}

func (e *Engine) opaqueErrType() *types.Pointer {
	p := e.prog.ImportedPackage("errors")
	if p == nil {
		e.unsupported("package errors not loaded")
	}
	return types.NewPointer(p.Pkg.Scope().Lookup("errorString").Type())
}

func (e *Engine) strArg(v Val) string { return e.goString(v) }

func (e *Engine) uniq(name string) string {
	n := e.varSeen[name]
	e.varSeen[name] = n + 1
	if n == 0 {
		return name
	}
	return fmt.Sprintf("%s~%d", name, n+1)
}

func (e *Engine) freshVar(name string, w int) *Term {
	name = e.uniq(name)
	if fixed, ok := e.run.Fixed[name]; ok {
		// concrete mode (selftest / debugging): the input is a constant
		k := e.K(w, fixed)
		e.path.Inputs = append(e.path.Inputs, inputRec{name, w, k})
		return k
	}
	v := e.tf.Var(name, w)
	e.vars = append(e.vars, v)
	e.path.Inputs = append(e.path.Inputs, inputRec{name, w, v})
	return v
}

// internalVar creates a solver variable that is not a harness input (stub results).
func (e *Engine) internalVar(name string, w int) *Term {
	name = e.uniq("$" + name)
	v := e.tf.Var(name, w)
	e.vars = append(e.vars, v)
	return v
}

var intrinsics map[string]intrinsicFn

func init() {
	H := "(*" + rtPkg + ".H)."
	intrinsics = map[string]intrinsicFn{
		// ---- harness API
		H + "Param": func(e *Engine, fn *ssa.Function, a []Val) Val {
			name := e.strArg(a[1])
			if v, ok := e.run.Params[name]; ok {
				return e.K(64, uint64(int64(v)))
			}
			return a[2]
		},
		H + "Native": func(e *Engine, fn *ssa.Function, a []Val) Val { return e.KB(false) },
		H + "Choose": func(e *Engine, fn *ssa.Function, a []Val) Val {
			name := e.uniq(e.strArg(a[1]))
			lo, hi := a[2].(*Term), a[3].(*Term)
			if !lo.IsConst() || !hi.IsConst() {
				e.unsupported("Choose with symbolic range")
			}
			var v int
			if fixed, ok := e.run.Fixed[name]; ok {
				v = int(int64(fixed))
			} else {
				v = e.chooseInt(int(int64(lo.C)), int(int64(hi.C)))
			}
			e.path.Choices = append(e.path.Choices, choiceRec{name, v})
			return e.K(64, uint64(int64(v)))
		},
		H + "Bool":     func(e *Engine, fn *ssa.Function, a []Val) Val { return e.freshVar(e.strArg(a[1]), 0) },
		H + "Concrete": func(e *Engine, fn *ssa.Function, a []Val) Val { return e.KB(a[1].(*Term).IsConst()) },
		H + "U8":       func(e *Engine, fn *ssa.Function, a []Val) Val { return e.freshVar(e.strArg(a[1]), 8) },
		H + "U16":      func(e *Engine, fn *ssa.Function, a []Val) Val { return e.freshVar(e.strArg(a[1]), 16) },
		H + "U32":      func(e *Engine, fn *ssa.Function, a []Val) Val { return e.freshVar(e.strArg(a[1]), 32) },
		H + "U64":      func(e *Engine, fn *ssa.Function, a []Val) Val { return e.freshVar(e.strArg(a[1]), 64) },
		H + "Bytes": func(e *Engine, fn *ssa.Function, a []Val) Val {
			name := e.strArg(a[1])
			nt := a[2].(*Term)
			if !nt.IsConst() {
				e.unsupported("Bytes with symbolic length")
			}
			n := int(nt.C)
			ts := make([]*Term, n)
			for i := range ts {
				ts[i] = e.freshVar(fmt.Sprintf("%s_%d", name, i), 8)
			}
			return e.bytesVal(ts)
		},
		H + "Assume": func(e *Engine, fn *ssa.Function, a []Val) Val { e.hAssume(a[1].(*Term)); return nil },
		H + "Assert": func(e *Engine, fn *ssa.Function, a []Val) Val {
			e.hAssert(e.strArg(a[1]), a[2].(*Term))
			return nil
		},
		H + "Fail": func(e *Engine, fn *ssa.Function, a []Val) Val {
			e.hAssert(e.strArg(a[1]), e.KB(false))
			return nil
		},
		H + "Tag": func(e *Engine, fn *ssa.Function, a []Val) Val {
			t := e.strArg(a[1])
			for _, x := range e.path.Tags {
				if x == t {
					return nil
				}
			}
			e.path.Tags = append(e.path.Tags, t)
			return nil
		},
		H + "Reach": func(e *Engine, fn *ssa.Function, a []Val) Val {
			e.path.Reached = append(e.path.Reached, e.strArg(a[1]))
			return nil
		},
		// Go(fs...): natively the functions run concurrently; here one after the other
		// under the shared-state monitor (conflicting accesses to state that existed
		// before the call are recorded)
		H + "Go": func(e *Engine, fn *ssa.Function, a []Val) Val {
			fs := a[1].(Slice)
			e.goBarrier = e.cellSeq
			e.goWrites, e.goReads = map[*Cell]int{}, map[*Cell]int{}
			for i := 0; i < fs.len; i++ {
				e.goPhase = i + 1
				e.callValue(e.load(fs.arr.kids[fs.off+i]), nil)
			}
			e.goPhase = 0
			return nil
		},
		// AssertIndependent: no conflicting access between the pipelines of Go and no
		// store to package-level state anywhere on the path
		H + "AssertIndependent": func(e *Engine, fn *ssa.Function, a []Val) Val {
			id := e.strArg(a[1])
			rec := e.path.assertRec(id)
			rec.Reached++
			bad := ""
			for w := range e.path.Conflicts {
				bad = w
			}
			for w := range e.path.GlobalStores {
				bad = "store to package-level state in " + w
			}
			if bad == "" {
				rec.Trivial++
				return nil
			}
			rec.Violated++
			e.path.addViolation(e, "race", id, e.ensureModel(), bad)
			return nil
		},
		H + "SetAllocLimit": func(e *Engine, fn *ssa.Function, a []Val) Val {
			e.path.AllocLimit = int(a[1].(*Term).C)
			return nil
		},
		H + "ObserveU64": func(e *Engine, fn *ssa.Function, a []Val) Val {
			e.path.Observes = append(e.path.Observes, obsRec{e.strArg(a[1]), []*Term{a[2].(*Term)}})
			return nil
		},
		H + "ObserveBool": func(e *Engine, fn *ssa.Function, a []Val) Val {
			e.path.Observes = append(e.path.Observes, obsRec{e.strArg(a[1]), []*Term{a[2].(*Term)}})
			return nil
		},
		H + "ObserveBytes": func(e *Engine, fn *ssa.Function, a []Val) Val {
			e.path.Observes = append(e.path.Observes, obsRec{e.strArg(a[1]), e.sliceTerms(a[2].(Slice))})
			return nil
		},
		rtPkg + ".And": func(e *Engine, fn *ssa.Function, a []Val) Val { return e.tf.And(a[0].(*Term), a[1].(*Term)) },
		rtPkg + ".Or":  func(e *Engine, fn *ssa.Function, a []Val) Val { return e.tf.Or(a[0].(*Term), a[1].(*Term)) },
		rtPkg + ".Implies": func(e *Engine, fn *ssa.Function, a []Val) Val {
			return e.tf.Or(e.tf.Not(a[0].(*Term)), a[1].(*Term))
		},
		rtPkg + ".IteU64": func(e *Engine, fn *ssa.Function, a []Val) Val {
			return e.tf.Ite(a[0].(*Term), a[1].(*Term), a[2].(*Term))
		},
		rtPkg + ".IteU8": func(e *Engine, fn *ssa.Function, a []Val) Val {
			return e.tf.Ite(a[0].(*Term), a[1].(*Term), a[2].(*Term))
		},
		rtPkg + ".IteInt": func(e *Engine, fn *ssa.Function, a []Val) Val {
			return e.tf.Ite(a[0].(*Term), a[1].(*Term), a[2].(*Term))
		},
		rtPkg + ".IteBool": func(e *Engine, fn *ssa.Function, a []Val) Val {
			return e.tf.Ite(a[0].(*Term), a[1].(*Term), a[2].(*Term))
		},
		rtPkg + ".BytesEq": func(e *Engine, fn *ssa.Function, a []Val) Val {
			x, y := a[0].(Slice), a[1].(Slice)
			if x.len != y.len {
				return e.KB(false)
			}
			r := e.KB(true)
			for i := 0; i < x.len; i++ {
				r = e.tf.And(r, e.tf.Eq(e.load(x.arr.kids[x.off+i]).(*Term), e.load(y.arr.kids[y.off+i]).(*Term)))
			}
			return r
		},
		rtPkg + ".IsConcrete": func(e *Engine, fn *ssa.Function, a []Val) Val {
			t, ok := a[0].(*Term)
			return e.KB(ok && t.IsConst())
		},
		rtPkg + ".Symbolic": func(e *Engine, fn *ssa.Function, a []Val) Val { return e.KB(true) },

		// ---- go-structform helpers modelled directly (aliasing is preserved)
		"github.com/elastic/go-structform/internal/unsafe.Str2Bytes": func(e *Engine, fn *ssa.Function, a []Val) Val {
			s := a[0].(Slice)
			s.str = false
			s.cap = s.len
			return s
		},
		"github.com/elastic/go-structform/internal/unsafe.Bytes2Str": func(e *Engine, fn *ssa.Function, a []Val) Val {
			s := a[0].(Slice)
			s.str = true
			s.cap = s.len
			if s.len == 0 {
				return Slice{str: true}
			}
			return s
		},
		// ReflValuePtr: the data word of a reflect.Value - the pointer itself for
		// pointer-shaped values, else the address of the value
		"github.com/elastic/go-structform/internal/unsafe.ReflValuePtr": func(e *Engine, fn *ssa.Function, a []Val) Val {
			r := a[0].(RV)
			if r.t == nil {
				return Ptr{}
			}
			if _, isMap := r.t.Underlying().(*types.Map); isMap && r.addr == nil {
				// the data word of a non-addressable map Value is the map itself, not the
				// address of a map variable: using it as *map is an invalid conversion
				e.goPanic("invalid reinterpretation: data word of a non-addressable %v value used as pointer to it", r.t)
			}
			if r.addr == nil && pointerShapedAggregate(r.t) {
				// a struct with a single pointer-shaped field (or an array of one such
				// element) is stored directly in the data word as well: the word of a
				// non-addressable Value is that inner pointer, not the address of a copy
				e.goPanic("invalid reinterpretation: data word of a non-addressable %v value (pointer-shaped, stored directly) used as pointer to it", r.t)
			}
			switch r.t.Underlying().(type) {
			case *types.Pointer, *types.Map, *types.Signature, *types.Chan:
				if r.addr != nil {
					return Ptr{c: r.addr}
				}
				v := e.rvGet(r)
				if p, ok := v.(Ptr); ok {
					return p
				}
				if m, ok := v.(*MapObj); ok {
					c := e.newCell(r.t)
					c.val = m
					return Ptr{c: c}
				}
				e.unsupported("ReflValuePtr of %T", v)
			}
			if r.addr != nil {
				return Ptr{c: r.addr}
			}
			c := e.newCell(r.t)
			e.store(c, r.v)
			return Ptr{c: c}
		},
		// UnsafeFnPtr: pointer to a fresh variable holding the function value
		"github.com/elastic/go-structform/internal/unsafe.UnsafeFnPtr": func(e *Engine, fn *ssa.Function, a []Val) Val {
			i := a[0].(Iface)
			var t types.Type
			var v Val
			if r, ok := i.v.(RV); ok {
				t, v = r.t, e.rvGet(r)
			} else {
				t, v = i.typ, i.v
			}
			if t == nil {
				e.goPanic("reflect: call of reflect.Value.Type on zero Value")
			}
			c := e.newCell(t)
			c.val = v
			return Ptr{c: c}
		},
		"github.com/elastic/go-structform/internal/unsafe.IfcValuePtr": func(e *Engine, fn *ssa.Function, a []Val) Val {
			i := a[0].(Iface)
			if i.typ == nil {
				return Ptr{}
			}
			if p, ok := i.v.(Ptr); ok {
				return p
			}
			c := e.newCell(i.typ)
			e.store(c, i.v)
			return Ptr{c: c}
		},

		// ---- trusted environment
		"runtime.KeepAlive":    func(e *Engine, fn *ssa.Function, a []Val) Val { return nil },
		"fmt.Errorf":           func(e *Engine, fn *ssa.Function, a []Val) Val { return e.opaqueError("fmt.Errorf") },
		"fmt.Sprintf":          func(e *Engine, fn *ssa.Function, a []Val) Val { return e.stringVal("<fmt.Sprintf>") },
		"fmt.Sprint":           func(e *Engine, fn *ssa.Function, a []Val) Val { return e.stringVal("<fmt.Sprint>") },
		"fmt.Println":          func(e *Engine, fn *ssa.Function, a []Val) Val { return Tuple{e.K(64, 0), Iface{}} },
		"fmt.Printf":           func(e *Engine, fn *ssa.Function, a []Val) Val { return Tuple{e.K(64, 0), Iface{}} },
		"math.Float32frombits": func(e *Engine, fn *ssa.Function, a []Val) Val { return a[0] },
		"math.Float64frombits": func(e *Engine, fn *ssa.Function, a []Val) Val { return a[0] },
		"math.Float32bits":     func(e *Engine, fn *ssa.Function, a []Val) Val { return a[0] },
		"math.Float64bits":     func(e *Engine, fn *ssa.Function, a []Val) Val { return a[0] },
		"strconv.ParseFloat":   stubParseFloat,
		"strconv.AppendFloat":  stubAppendFloat,
		"strings.Split": func(e *Engine, fn *ssa.Function, a []Val) Val {
			parts := strings.Split(e.goString(a[0]), e.goString(a[1]))
			arr := e.newArray(types.Typ[types.String], len(parts))
			for i, p := range parts {
				arr.kids[i].val = e.stringVal(p)
			}
			return Slice{arr: arr, len: len(parts), cap: len(parts)}
		},
		"strings.TrimSpace": func(e *Engine, fn *ssa.Function, a []Val) Val {
			return e.stringVal(strings.TrimSpace(e.goString(a[0])))
		},
		"strings.ToLower": func(e *Engine, fn *ssa.Function, a []Val) Val {
			return e.stringVal(strings.ToLower(e.goString(a[0])))
		},
		"unicode.IsUpper": func(e *Engine, fn *ssa.Function, a []Val) Val {
			t := a[0].(*Term)
			if !t.IsConst() {
				return e.callBody(fn, a, nil) // table lookup / range search on the real tables
			}
			return e.KB(unicode.IsUpper(rune(t.C)))
		},
		"io.Copy": stubIOCopy,

		// ---- sync: the engine runs one goroutine; locks are no-ops, Once and Map are
		// modelled on ordinary cells (so that stores to a package-level Once/Map are seen
		// by the shared-state monitor)
		"(*sync.Mutex).Lock":      func(e *Engine, fn *ssa.Function, a []Val) Val { return nil },
		"(*sync.Mutex).Unlock":    func(e *Engine, fn *ssa.Function, a []Val) Val { return nil },
		"(*sync.Mutex).TryLock":   func(e *Engine, fn *ssa.Function, a []Val) Val { return e.KB(true) },
		"(*sync.RWMutex).Lock":    func(e *Engine, fn *ssa.Function, a []Val) Val { return nil },
		"(*sync.RWMutex).Unlock":  func(e *Engine, fn *ssa.Function, a []Val) Val { return nil },
		"(*sync.RWMutex).RLock":   func(e *Engine, fn *ssa.Function, a []Val) Val { return nil },
		"(*sync.RWMutex).RUnlock": func(e *Engine, fn *ssa.Function, a []Val) Val { return nil },
		"(*sync.Once).Do": func(e *Engine, fn *ssa.Function, a []Val) Val {
			c := e.resolve(a[0].(Ptr), "sync.Once")
			flag := syncFlagCell(e, c)
			if t, ok := flag.val.(*Term); ok && t.IsConst() && t.C == 1 {
				return nil
			}
			e.store(flag, e.KB(true))
			e.callValue(a[1], nil)
			return nil
		},
		"(*sync.Map).Load": func(e *Engine, fn *ssa.Function, a []Val) Val {
			m := syncMapOf(e, a[0].(Ptr), false)
			if v, ok := e.mapLookup(m, a[1]); ok {
				return Tuple{v, e.KB(true)}
			}
			return Tuple{Iface{}, e.KB(false)}
		},
		"(*sync.Map).Store": func(e *Engine, fn *ssa.Function, a []Val) Val {
			e.mapUpdate(syncMapOf(e, a[0].(Ptr), true), a[1], a[2])
			return nil
		},
		"(*sync.Map).LoadOrStore": func(e *Engine, fn *ssa.Function, a []Val) Val {
			m := syncMapOf(e, a[0].(Ptr), true)
			if v, ok := e.mapLookup(m, a[1]); ok {
				return Tuple{v, e.KB(true)}
			}
			e.mapUpdate(m, a[1], a[2])
			return Tuple{a[2], e.KB(false)}
		},
		"(*sync.Map).Delete": func(e *Engine, fn *ssa.Function, a []Val) Val {
			m := syncMapOf(e, a[0].(Ptr), true)
			for i := range m.keys {
				if e.decide(e.valEq(m.keys[i], a[1])) {
					e.touchMap(m)
					m.keys = append(append([]Val{}, m.keys[:i]...), m.keys[i+1:]...)
					m.vals = append(append([]Val{}, m.vals[:i]...), m.vals[i+1:]...)
					break
				}
			}
			return nil
		},
	}
}

// syncFlagCell / syncMapOf keep the state of a sync.Once / sync.Map in side cells
// attached to the object (created with the object's epoch, so state of a
// package-level object counts as package-level state).
func syncFlagCell(e *Engine, c *Cell) *Cell {
	if f, ok := e.syncSide[c]; ok {
		return f
	}
	f := &Cell{typ: types.Typ[types.Bool], val: e.KB(false), epoch: c.epoch, seq: c.seq}
	e.syncSide[c] = f
	return f
}

func syncMapOf(e *Engine, p Ptr, write bool) *MapObj {
	c := e.resolve(p, "sync.Map")
	side := syncFlagCell(e, c)
	m, ok := side.val.(*MapObj)
	if !ok {
		m = &MapObj{epoch: c.epoch}
		side.val = m
	}
	if write && e.goPhase > 0 && e.shared(c) {
		e.path.noteConflict("sync.Map written by a pipeline in " + e.curFuncName())
	}
	return m
}

// strconv.ParseFloat: the syntax check is modelled by rt.FloatSyntax (Go code,
// executed symbolically); the value is uninterpreted but functional: the same
// text (the same byte terms) gives the same result variable, so "the library
// hands exactly this text to ParseFloat and reports its result unchanged" is
// decidable while correct rounding stays trusted strconv.
func stubParseFloat(e *Engine, fn *ssa.Function, a []Val) Val {
	s := a[0].(Slice)
	ts := e.sliceTerms(s)
	e.path.ParseFloatArgs = append(e.path.ParseFloatArgs, ts)
	// a concrete literal is parsed natively (the stub is exact in that case)
	if str, ok := e.tryGoString(s); ok {
		if bs, isC := a[1].(*Term); isC && bs.IsConst() {
			f, err := parseFloatNative(str, int(bs.C))
			if err != nil {
				return Tuple{e.K(64, f), e.opaqueError("strconv.ParseFloat")}
			}
			return Tuple{e.K(64, f), Iface{}}
		}
	}
	fail := func() Val { return Tuple{e.K(64, 0), e.opaqueError("strconv.ParseFloat")} }
	rtp := e.prog.ImportedPackage(rtPkg)
	cls, big := 2, false
	if rtp != nil && rtp.Func("FloatSyntax") != nil {
		r := e.call(rtp.Func("FloatSyntax"), []Val{s}, nil).(Tuple)
		cls = e.concretize(r[0].(*Term), "FloatSyntax class")
		big = e.decide(r[1].(*Term))
	}
	if cls == 0 {
		return fail()
	}
	var key strings.Builder
	for _, t := range ts {
		if t.IsConst() {
			fmt.Fprintf(&key, "c%d,", t.C)
		} else {
			fmt.Fprintf(&key, "t%d,", t.id)
		}
	}
	if e.path.pfMemo == nil {
		e.path.pfMemo = map[string]*Term{}
	}
	v := e.path.pfMemo[key.String()]
	if v == nil {
		v = e.internalVar("parsefloat", 64)
		e.path.pfMemo[key.String()] = v
		// contract of strconv.ParseFloat: a result returned without error is finite
		expo := e.tf.Bin(OAnd, e.tf.Bin(OLShr, v, e.K(64, 52)), e.K(64, 0x7ff))
		e.assume(e.tf.Not(e.tf.Eq(expo, e.K(64, 0x7ff))))
	}
	if cls == 2 || big {
		// not decided by the syntax model: unknown outcome, but the same for the same text
		okv := e.path.pfMemo["ok:"+key.String()]
		if okv == nil {
			okv = e.internalVar("parsefloat_ok", 0)
			e.path.pfMemo["ok:"+key.String()] = okv
		}
		if !e.decide(okv) {
			return fail()
		}
	}
	return Tuple{v, Iface{}}
}

// strconv.AppendFloat: concrete floats are formatted natively; symbolic ones are
// outside the encoding (float <-> decimal is trusted strconv).
func stubAppendFloat(e *Engine, fn *ssa.Function, a []Val) Val {
	dst := a[0].(Slice)
	f, fmtc, prec, bs := a[1].(*Term), a[2].(*Term), a[3].(*Term), a[4].(*Term)
	if !f.IsConst() || !fmtc.IsConst() || !prec.IsConst() || !bs.IsConst() {
		e.unsupported("strconv.AppendFloat on a symbolic float")
	}
	txt := appendFloatNative(f.C, byte(fmtc.C), int(int64(prec.C)), int(bs.C))
	ts := e.sliceTerms(dst)
	for i := 0; i < len(txt); i++ {
		ts = append(ts, e.K(8, uint64(txt[i])))
	}
	// behave like append: reuse capacity when possible
	if len(ts) <= dst.cap && dst.arr != nil {
		for i := dst.len; i < len(ts); i++ {
			e.store(dst.arr.kids[dst.off+i], ts[i])
		}
		dst.len = len(ts)
		return dst
	}
	return e.bytesVal(ts)
}

// io.Copy: model of the documented loop — read into a buffer, write what was
// read, stop at EOF (nil) or at the first error.
func stubIOCopy(e *Engine, fn *ssa.Function, a []Val) Val {
	dst, src := a[0].(Iface), a[1].(Iface)
	if dst.typ == nil || src.typ == nil {
		e.goPanic("io.Copy with nil reader/writer")
	}
	ioPkg := e.prog.ImportedPackage("io")
	rd := ioPkg.Pkg.Scope().Lookup("Reader").Type().Underlying().(*types.Interface).Method(0)
	wr := ioPkg.Pkg.Scope().Lookup("Writer").Type().Underlying().(*types.Interface).Method(0)
	readFn := e.lookupMethod(src.typ, rd)
	writeFn := e.lookupMethod(dst.typ, wr)
	eof := e.load(e.global(ioPkg.Var("EOF")))
	const bufSize = 64 // any size is admissible for io.Copy's internal buffer
	buf := Slice{arr: e.newArray(types.Typ[types.Uint8], bufSize), len: bufSize, cap: bufSize}
	total := e.K(64, 0)
	for iter := 0; ; iter++ {
		if iter > 10000 {
			panic(pathEnd{kind: "budget", msg: "io.Copy model"})
		}
		e.steps += 50
		if e.steps > e.maxSteps {
			panic(pathEnd{kind: "budget", msg: "instruction budget exhausted in io.Copy model"})
		}
		r := e.call(readFn, []Val{src.v, buf}, nil).(Tuple)
		n := e.boundedIndex(e.tf.Resize(r[0].(*Term), 64, true), bufSize, true, "io.Copy read count")
		rerr := r[1].(Iface)
		if n > 0 {
			w := e.call(writeFn, []Val{dst.v, Slice{arr: buf.arr, off: 0, len: n, cap: bufSize}}, nil).(Tuple)
			total = e.tf.Bin(OAdd, total, w[0].(*Term))
			if werr := w[1].(Iface); werr.typ != nil {
				return Tuple{total, werr}
			}
			nw := e.concretize(w[0].(*Term), "io.Copy write count")
			if nw != n {
				return Tuple{total, e.opaqueError("short write")}
			}
		}
		if rerr.typ != nil {
			if e.decide(e.valEq(rerr, eof)) {
				return Tuple{total, Iface{}}
			}
			return Tuple{total, rerr}
		}
	}
}

// ---------------------------------------------------------------- Assume / Assert

func (e *Engine) replaying() bool { return e.pos < len(e.prefix) }

func (e *Engine) hAssume(c *Term) {
	c = e.tf.simp(c)
	if c.True() {
		return
	}
	if c.False() {
		panic(pathEnd{kind: "assume", msg: "assumption is false"})
	}
	if e.replaying() || e.modelSays(c) == 1 {
		e.assume(c)
		return
	}
	r, m := e.check(c)
	switch r {
	case Unsat:
		panic(pathEnd{kind: "assume", msg: "assumption infeasible"})
	case Unknown:
		e.path.Uncertain++
		e.model = nil
	default:
		e.model = m
	}
	e.assume(c)
}

func (e *Engine) ensureModel() Model {
	if e.model != nil {
		return e.model
	}
	r, m := e.check(nil)
	if r == Sat && m != nil {
		e.model = m
	}
	return e.model
}

func (e *Engine) hAssert(id string, c *Term) {
	c = e.tf.simp(c)
	if e.replaying() {
		if c.False() {
			panic(pathEnd{kind: "stop", msg: "assertion " + id + " is false (already reported)"})
		}
		if !c.True() {
			e.assume(c)
		}
		return
	}
	rec := e.path.assertRec(id)
	rec.Reached++
	if c.True() {
		rec.Trivial++
		return
	}
	if c.False() {
		rec.Violated++
		e.path.addViolation(e, "assert", id, e.ensureModel(), "")
		panic(pathEnd{kind: "stop", msg: "assertion " + id + " failed on the whole path"})
	}
	nc := e.tf.Not(c)
	ms := e.modelSays(c)
	if ms == 0 {
		rec.Violated++
		e.path.addViolation(e, "assert", id, e.model, "")
	} else {
		r, m := e.check(nc)
		switch r {
		case Sat:
			rec.Violated++
			e.path.addViolation(e, "assert", id, m, "")
		case Unsat:
			rec.Proved++
		default:
			rec.Inconclusive++
			e.path.Uncertain++
		}
	}
	// continue under the assumption that the assertion holds
	if ms != 1 {
		r, m := e.check(c)
		if r == Unsat {
			panic(pathEnd{kind: "stop", msg: "assertion " + id + " cannot hold on this path"})
		}
		e.model = m
		if r == Unknown {
			e.model = nil
		}
	}
	e.assume(c)
}

// pointerShaped: values of t occupy exactly one pointer word and are stored directly
// in an interface's / reflect.Value's data word (cmd/compile isdirectiface).
func pointerShaped(t types.Type) bool {
	switch u := t.Underlying().(type) {
	case *types.Pointer, *types.Map, *types.Signature, *types.Chan:
		return true
	case *types.Basic:
		return u.Kind() == types.UnsafePointer
	case *types.Struct:
		return u.NumFields() == 1 && pointerShaped(u.Field(0).Type())
	case *types.Array:
		return u.Len() == 1 && pointerShaped(u.Elem())
	}
	return false
}

func pointerShapedAggregate(t types.Type) bool {
	switch t.Underlying().(type) {
	case *types.Struct, *types.Array:
		return pointerShaped(t)
	}
	return false
}
